#!/bin/bash
# tools/seeded_run.sh <patch.diff> <tier> <ID>...   apply a seeded change to /repo, run the named checks, undo it.
# Prints per check: id, exit code, first VIOLATION line. Never leaves /repo modified.
set -u
patch="$(readlink -f "$1")"; tier="$2"; shift 2
cd "$(dirname "$0")/.."
if [ -n "$(git -C /repo status --porcelain --untracked-files=no)" ]; then echo "/repo is not clean"; exit 2; fi
git -C /repo apply "$patch" || { echo "patch does not apply"; exit 2; }
trap 'git -C /repo checkout -q -- .' EXIT
for id in "$@"; do
  t0=$(date +%s)
  out=$(VERIF_OUT=/tmp/seeded_out ./check "$id" --tier "$tier" 2>&1); rc=$?
  t1=$(date +%s)
  echo "$id rc=$rc $((t1-t0))s | $(echo "$out" | grep -A1 '^VIOLATION' | head -2 | tr '\n' ' ' | cut -c1-400)"
done
