#!/bin/bash
# tools/seeded_verify.sh <candidate-dir> <k> <scratch-worktree>
# Confirms a candidate seeded change in a scratch worktree of /repo (outside /repo and /verif):
#   demo passes on the unchanged code, fails with the patch; the unedited suite passes with the patch.
# Prints one line: VERIFIED / REJECTED <reason>.  The worktree is left clean.
set -u
cand="$1"; k="$2"; wt="$3"
patch="$cand/m$k.diff"; demo="$cand/demo$k.rs"
[ -f "$patch" ] && [ -f "$demo" ] || { echo "REJECTED missing files in $cand (k=$k)"; exit 1; }
export CARGO_NET_OFFLINE=true
git -C "$wt" checkout -q -- . ; git -C "$wt" clean -fdq -e target
pkg=apache-avro; tdir=avro/tests
if grep -qi "avro_derive/tests" "$cand/notes$k.md" 2>/dev/null; then pkg=apache-avro-derive; tdir=avro_derive/tests; fi
cp "$demo" "$wt/$tdir/demo$k.rs"
cd "$wt"
if ! cargo test -p $pkg --test demo$k --offline >"$cand/verify$k.orig.log" 2>&1; then
  echo "REJECTED demo fails on the unchanged code ($cand k=$k)"; rm -f "$wt/$tdir/demo$k.rs"; exit 1; fi
if ! git apply "$patch"; then echo "REJECTED patch does not apply ($cand k=$k)"; rm -f "$wt/$tdir/demo$k.rs"; exit 1; fi
if cargo test -p $pkg --test demo$k --offline >"$cand/verify$k.mut.log" 2>&1; then
  echo "REJECTED demo passes on the changed code ($cand k=$k)"; git checkout -q -- .; rm -f "$wt/$tdir/demo$k.rs"; exit 1; fi
if ! grep -q "test result: FAILED\|panicked" "$cand/verify$k.mut.log"; then
  echo "REJECTED demo does not build on the changed code ($cand k=$k)"; git checkout -q -- .; rm -f "$wt/$tdir/demo$k.rs"; exit 1; fi
rm -f "$wt/$tdir/demo$k.rs"
cargo nextest run --workspace --no-fail-fast --tool-config-file pb:/w/lib/nextest.toml --profile pb --test-threads 8 --offline >"$cand/verify$k.suite.log" 2>&1
sum=$(grep -E "^\s*Summary" "$cand/verify$k.suite.log" | tail -1)
git checkout -q -- . ; git clean -fdq -e target
if echo "$sum" | grep -q "775 tests run: 775 passed"; then echo "VERIFIED $cand k=$k | $sum"; exit 0; fi
echo "REJECTED suite: $sum ($cand k=$k)"; exit 1
