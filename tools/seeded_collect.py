#!/usr/bin/env python3
"""Assemble /verif/seeded/<id>-<k>/ from the candidate directories produced by the sub-agents
(/tmp/mut/<id>/) and the evaluation results (/tmp/mut/results.txt). Only verified candidates are kept."""
import json, os, re, shutil, sys
SRC = sys.argv[1] if len(sys.argv) > 1 else "/tmp/mut"
# numbering offset: the second round's candidates 1,2 become <property>-3, <property>-4
OFFSET = int(sys.argv[2]) if len(sys.argv) > 2 else 0
DST = "/verif/seeded"
verified = {}
for l in open(os.path.join(SRC, "verify.log")):
    m = re.match(r"VERIFIED \S+/(C\d\d) k=(\d) \| *Summary \[ *([\d.]+)s\] (.*)", l)
    if m:
        verified[(m.group(1), m.group(2))] = m.group(4).strip()
results = {}
for l in open(os.path.join(SRC, "results.txt")):
    m = re.match(r"(C\d\d) m(\d) :: (.*)", l)
    if not m:
        continue
    runs = []
    for part in m.group(3).split("#"):
        r = re.match(r"\s*(C\d\d) rc=(\d+) (\d+)s \| ?(.*)", part)
        if r:
            key = re.search(r"key=(\S+)", r.group(4))
            runs.append({"check": r.group(1), "exit_code": int(r.group(2)), "seconds": int(r.group(3)), "violation_key": key.group(1) if key else None})
    if runs:
        results[(m.group(1), m.group(2))] = runs
os.makedirs(DST, exist_ok=True)
for (pid, k), suite in sorted(verified.items()):
    n = int(k) + OFFSET
    d = os.path.join(DST, f"{pid}-{n}")
    os.makedirs(d, exist_ok=True)
    src = os.path.join(SRC, pid)
    override = os.path.join(SRC, pid, f"m{k}.rebased.diff")
    shutil.copy(override if os.path.exists(override) else os.path.join(src, f"m{k}.diff"), os.path.join(d, "patch.diff"))
    shutil.copy(os.path.join(src, f"demo{k}.rs"), os.path.join(d, "demo.rs"))
    notes = os.path.join(src, f"notes{k}.md")
    text = open(notes).read() if os.path.exists(notes) else ""
    if text:
        open(os.path.join(d, "notes.md"), "w").write(text)
    derive = "avro_derive/tests" in text
    files = re.findall(r"^\+\+\+ b/(\S+)", open(os.path.join(d, "patch.diff")).read(), re.M)
    r = results.get((pid, k))
    meta = {
        "id": f"{pid}-{n}",
        "property": pid,
        "origin": "written by a sub-agent that was given only the property record and a scratch worktree of /repo" + ("" if OFFSET == 0 else " (second round: also told which two mechanisms had been used already)"),
        "files_changed": files,
        "demonstration": {"file": "demo.rs", "copy_to": ("avro_derive/tests/" if derive else "avro/tests/") + "demo.rs", "run": f"cargo test -p {'apache-avro-derive' if derive else 'apache-avro'} --test demo --offline"},
        "confirmed_in_scratch_worktree": {"demo_passes_on_unchanged_code": True, "demo_fails_with_patch": True, "existing_suite_with_patch": suite},
        "apply": "git -C /repo apply /verif/seeded/%s-%s/patch.diff   (undo: git -C /repo checkout -- .)" % (pid, n),
        "evaluation": ({
            "command": f"tools/seeded_run.sh seeded/{pid}-{n}/patch.diff quick " + " ".join(x["check"] for x in r),
            "detected": any(x["exit_code"] == 1 for x in r),
            "detected_by": [x["check"] for x in r if x["exit_code"] == 1],
            "runs": r,
        } if r else None),
    }
    json.dump(meta, open(os.path.join(d, "meta.json"), "w"), indent=1)
    open(os.path.join(d, "meta.json"), "a").write("\n")
print(len(verified), "seeded changes written to", DST)
