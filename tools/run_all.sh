#!/bin/bash
# run every registered quick (or $1=thorough) check once; print id, exit code, seconds, summary line
tier=${1:-quick}
cd "$(dirname "$0")/.."
for id in C01 C02 C03 C04 C05 C06 C07 C08 C09 C10 C11 C12 C13 C14 C15 C16 C17 C18 C19 C20; do
  t0=$(date +%s)
  out=$(./check $id --tier $tier 2>&1); rc=$?
  t1=$(date +%s)
  echo "$id rc=$rc $((t1-t0))s $(echo "$out" | grep -c '^KNOWN-FINDING') known | $(echo "$out" | grep "^$id tier" | tail -1)"
  echo "$out" | grep '^VIOLATION\|^INCONCLUSIVE' | head -5
done
