#!/usr/bin/env python3
"""Regenerate /verif/MANIFEST.json from the table below (keeps it schema-valid)."""
import json, os, sys
ROOT = os.path.dirname(os.path.dirname(os.path.abspath(__file__)))

# id -> (category, technique, level text, level note, design ref)
CHECKS = {
 "C01": ("exploration", "property-based testing (proptest choice sequences), round-trip oracle with exact-consumption check",
         "Generated (schema, values, tail) cases through the real writer/reader; any failing case is shrunk to a replay file. Exploration only: absence of a counterexample within the generated space.",
         "Trusts the harness's strict Value<->spec conversion and its generators (values canonical and conforming).", "DESIGN.md §4 C01"),
 "C02": ("exploration", "property-based differential testing against an independent Avro binary codec written from the spec",
         "Both directions: library bytes read by the reference decoder; reference bytes in every legal layout (block partitions, negative counts, map orders) read by the library.",
         "Trusts refbin (golden self-tests from the specification text run at start-up).", "DESIGN.md §4 C02"),
}
NOT_YET = {}

def main():
    props = [json.loads(l) for l in open(os.path.join(ROOT, "properties.jsonl"))]
    checks = []
    na = []
    for p in props:
        pid = p["id"]
        if pid in CHECKS:
            cat, tech, text, note, ref = CHECKS[pid]
            checks.append({
                "property_id": pid,
                "quick_cmd": f"./check {pid} --tier quick",
                "thorough_cmd": f"./check {pid} --tier thorough",
                "evidence_file": f"/verif/evidence/{pid}.json",
                "replay_cmd_template": f"./check {pid} --replay {{path}}",
                "engine": "avro-verif",
                "level_claimed": {"category": cat, "text": text, "design_ref": ref},
                "level_note": note,
                "technique": tech,
            })
        else:
            na.append({"property_id": pid, "reason": NOT_YET.get(pid, "check not built yet in this round (planned: see DESIGN.md §4); not a claim that the technique cannot apply")})
    m = {
        "version": 1,
        "setup_cmd": "cd /verif/harness && CARGO_NET_OFFLINE=true cargo build --release --offline",
        "hooks": {
            "guard": "--cfg apache_avro_rs_verif",
            "enable": "none needed: every observation point is reachable through the public API; the harness links /repo/avro as a path dependency",
            "baseline_off_cmd": "cd /repo && cargo nextest run --workspace --no-fail-fast --offline || cargo test --workspace --no-fail-fast --offline",
            "source_commits": [],
            "add_only": True,
        },
        "engines": [{"name": "avro-verif", "path": "/verif/harness", "serves_properties": sorted(CHECKS), "kind_free_text": "Rust binary: proptest-driven choice-sequence generators, reference implementations as oracles, shrinking to replay files"}],
        "checks": checks,
        "not_applicable": na,
        "notes": "exit 0 = held on everything explored (KNOWN-FINDING lines possible); 1 = VIOLATION; 2 = inconclusive/infrastructure. VERIF_SEED selects the PRNG seed; VERIF_TIER or --tier the depth.",
    }
    json.dump(m, open(os.path.join(ROOT, "MANIFEST.json"), "w"), indent=1)
    print("wrote MANIFEST.json:", len(checks), "checks,", len(na), "not_applicable")

if __name__ == "__main__":
    main()
