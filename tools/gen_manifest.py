#!/usr/bin/env python3
"""Regenerate /verif/MANIFEST.json from the table below (keeps it schema-valid)."""
import json, os, sys
ROOT = os.path.dirname(os.path.dirname(os.path.abspath(__file__)))

# id -> (category, technique, level text, level note, design ref)
CHECKS = {
 "C01": ("exploration", "property-based testing (proptest choice sequences), round-trip oracle with exact-consumption check",
         "Generated (schema, values, tail) cases through the real writer/reader; any failing case is shrunk to a replay file. Exploration only: absence of a counterexample within the generated space.",
         "Trusts the harness's strict Value<->spec conversion and its generators (values canonical and conforming).", "DESIGN.md §4 C01"),
 "C02": ("exploration", "property-based differential testing against an independent Avro binary codec written from the spec",
         "Both directions: library bytes read by the reference decoder; reference bytes in every legal layout (block partitions, negative counts, map orders) read by the library.",
         "Trusts refbin (golden self-tests from the specification text run at start-up).", "DESIGN.md §4 C02"),

 "C03": ("exploration", "model-based property testing: generated writer operation histories against an in-memory list model, file read back after every step",
         "Histories of appends (value/ref/unvalidated/serde), bulk extends, flushes, three kinds of failing appends, metadata calls, reset, finish by into_inner/drop, reopen with append_to; codecs x block sizes.",
         "Sink is a perfect in-memory buffer; failing appends are classified by the library's own validate() plus a dry run of the unvalidated encoder.", "DESIGN.md §4 C03"),
 "C04": ("exploration", "property-based differential testing against an independent container-file reader/writer and reference codecs (own inflate/snappy/CRC-32, Python zlib/bz2/lzma)",
         "Forward (library writes, reference reads) and reverse (reference writes in generated layouts, library reads) over schemas, value sequences, codecs, block partitions and metadata layouts.",
         "Trusts refocf/refbin/refcodec (golden self-tests at start-up) and Python's standard codecs; zstandard has no independent codec here.", "DESIGN.md §4 C04"),
 "C06": ("exploration", "property-based testing plus bounded-exhaustive enumeration: every strict prefix, byte mutations, random strings and all <=2-byte strings; conformance/fixpoint/prefix-freeness/decoder-agreement oracles; thorough tier adds a coverage-guided libFuzzer campaign (cargo-fuzz target c06_datum) with the same oracle inside the target",
         "Every input on which decoding returns Ok is checked for strict conformance, validate(), re-encode fixpoint; strict prefixes of valid data must err; the two decoders must agree.",
         "Allocation limit fixed at 1 MiB in the check's process; inputs stopped by that limit are excluded from the agreement oracle.", "DESIGN.md §4 C06"),
 "C13": ("fault_enumeration", "generated write scenarios with exhaustive fault injection: error at every sink call index (write and flush, Other and Interrupted) under short-write plans",
         "For each generated scenario and short-write plan the number of sink calls is measured and a fault injected at each index; oracle: Err returned or sink holds exactly the in-memory baseline; documented byte counts match.",
         "Sinks accept >=1 byte per call; faults firing during Drop cannot be reported by design and are excluded from the exactness oracle.", "DESIGN.md §4 C13"),
 "C14": ("fault_enumeration", "exhaustive fault enumeration per generated file: every cut offset, every marker/magic byte alteration; expected outcome from an independent layout reader",
         "For each generated multi-block file every byte offset is a cut point and every marker/magic byte is altered with three masks; the expected prefix and Ok/Err shape are computed from the block layout.",
         "Block boundaries come from the harness's independent container reader on the pristine file.", "DESIGN.md §4 C14"),

 "C10": ("exploration", "property-based testing plus bounded-exhaustive grids; round-trip oracle with a strict JSON reader and a complete structural dump as deep equality",
         "Every accepted text: serialized JSON must be strict, re-parse to a schema with an identical complete dump, serialize byte-identically again, and survive a container-file header.",
         "Deep equality is the harness's own dump over the library's public Schema fields.", "DESIGN.md §4 C10"),
 "C12": ("exploration", "property-based differential testing against a reference Parsing Canonical Form computed from the JSON text and a bitwise CRC-64-AVRO; metamorphic irrelevant-edit variants",
         "canonical_form equals the reference PCF of the text, is equal across irrelevant-edit variants and idempotent; Rabin/MD5/SHA-256 fingerprints equal reference digests; Rabin over arbitrary bytes in arbitrary pieces equals the bitwise reference.",
         "refpcf implements the spec's seven rules (self-test with published vectors); md-5/sha2 crates cross-checked with Python hashlib.", "DESIGN.md §4 C12"),
 "C18": ("exploration", "model-based property testing of write sequences through one writer plus exhaustive header bit-flip/truncation enumeration; reference header from refpcf/CRC-64-AVRO",
         "Each successful write must emit exactly marker+fingerprint+datum and read back alone via both readers, also after failed writes; all 80 header bit flips and all truncations must be rejected without touching the datum.",
         "Expected fingerprint from the harness's reference canonical form (schemas without logical types, whose canonical form is C12's known finding).", "DESIGN.md §4 C18"),

 "C11": ("exploration", "property-based testing with structural JSON mutation, arbitrary JSON/text generation and a grammar generator; totality, operation-totality, well-formedness-walker and completeness oracles; thorough tier adds a coverage-guided libFuzzer campaign (cargo-fuzz target c11_schema) with the same oracle inside the target",
         "Mutated, arbitrary and generated schema texts: the three parser entry points return and agree; every operation on an accepted schema completes; accepted schemas pass the harness's well-formedness walker; generated well-formed schemas are accepted.",
         "Well-formedness as implemented by the harness's walker over the library's public Schema fields; hangs are not decided (only panics/errors).", "DESIGN.md §4 C11"),

 "C07": ("exploration", "property-based testing over generated non-canonical value forms; the library's validate() splits accepted/rejected, oracle = harness canonical-form predicate + no-byte-written check over three writers",
         "Accepted forms must be written by the datum, container and single-object writers and read back (library and reference decoder) as a canonical form of the value; rejected forms must leave sink, file and message untouched.",
         "Canonical forms come from the harness's own denotes() predicate; bare-value-in-union and near-miss forms are applied alone, other forms in combinations.", "DESIGN.md §4 C07"),

 "C15": ("exploration", "property-based round-trip and differential testing of every codec/level against reference codecs (own inflate/snappy/CRC-32, Python zlib/bz2/lzma); enumeration of all levels and of the output limit boundary",
         "Every codec x every valid level on fixed payloads; generated payloads x random codec/level: round trip, reference decompressor reads the library's output, library reads reference streams, snappy CRC trailer; hostile input never exceeds the limit; L-1/L accepted, L+1/8L refused.",
         "Python's zlib/bz2/lzma and the harness's own inflate/snappy are the references; zstandard has none here; allocation limit fixed at 1 MiB in the check's process.", "DESIGN.md §4 C15"),

 "C20": ("exploration", "property-based testing over generated schema sets with exhaustive permutation enumeration and repeated runs; reference resolvability predicate and cross-ordering equality/codec oracles",
         "Generated sets of mutually referencing named schemas are parsed under every permutation, several times each (fresh hash seed per call): outcome must equal the reference predicate, results must be identical across orderings and runs, and values must cross orderings.",
         "The reference predicate comes from the harness's own schema reader; the hash-seed dependent known defect is excluded from the main campaign by construction.", "DESIGN.md §4 C20"),

 "C08": ("exploration", "property-based differential testing against an independent implementation of the specification's schema-resolution rules (set-valued for reader unions) over generated writer/reader pairs built from evolution steps",
         "Generated (W, R, value) triples through three library routes (datum reader with reader schema, decode + Value::resolve, container reader with reader schema): routes agree, results are among the prescribed values, validate against R, resolve to themselves, errors only where the rules allow.",
         "refresolve implements the rules; cases where its alternative list is truncated or a default cannot be interpreted only check route agreement; the pervasive value-driven leniency is one known finding family (C08/lenient/*).", "DESIGN.md §4 C08"),
 "C09": ("exploration", "bounded-exhaustive enumeration of all ordered pairs of a 35-schema alphabet plus property-based pairs from the evolution generator; soundness-by-reading, safe-step, reflexivity, symmetry and determinism oracles",
         "Verdict Full implies that sampled edge-biased values written with W read with R; pairs built from always-safe steps are never reported incompatible; every schema is compatible with itself; mutual_read is symmetric; verdicts are repeatable and address-independent.",
         "Soundness is sampled with 5-8 values per pair; failures are attributed to root-cause classes by causal re-tests.", "DESIGN.md §4 C09"),

 "C05": ("exploration", "structure-aware hostile input generation plus bounded-exhaustive short inputs, run in one child process per allocation limit with a counting global allocator, panic capture, element-count work bounds and abort attribution by in-flight replay; thorough tier adds coverage-guided libFuzzer campaigns (cargo-fuzz targets c05_datum, c05_container) with the same oracle inside the target",
         "Every reading entry point on hostile datums, container files and decompression bombs under limits 4 KiB / 64 KiB / 1 MiB (16 MiB thorough): no panic, no abort, visited elements bounded by input size + limit, no single allocation above max(limit, 64 x input) + slack.",
         "Allocation is measured per calling thread; constant-size codec state is allowed 256 KiB of slack; data nesting depth is bounded by the generator; a true hang would show as a child that never returns.", "DESIGN.md §4 C05"),
 "C16": ("exploration", "property-based testing over a compiled corpus of 33 serde types plus a dynamic serializer/deserializer driven by generated (schema, value) pairs; round-trip, differential (schema-aware vs generic route, reference decoder) and byte-count oracles across block sizes",
         "Every generated value of every corpus type and every generated (schema, value) pair: schema-aware bytes are read back equal by the schema-aware deserializer, accepted by the generic and the reference decoder as exactly one conforming datum, the returned count equals the bytes emitted, for block sizes none/1/small/large; for the coinciding subset the generic route gives the same bytes up to block partitioning and recovers the value.",
         "The corpus is hand-written (a proc-macro cannot be driven by a run-time generator); the dynamic side covers shapes by replaying generated values through every serde data-model method the schema permits.", "DESIGN.md §4 C16"),
 "C17": ("exploration", "property-based testing over a compiled corpus of derived types x generated values; determinism, well-formedness walker, JSON round trip and serialize/deserialize/container round-trip oracles",
         "Each derived schema is computed repeatedly and compared, walked by the harness's well-formedness walker, resolved, round-tripped through JSON; every generated value of each type serializes under the derived schema, reads back equal (datum, container file, single-object) and is accepted by the reference decoder.",
         "The type corpus is fixed at compile time (attribute combinations enumerated by hand in harness/src/corpus.rs); a derive defect needing a type outside the corpus is not reached.", "DESIGN.md §4 C17"),
 "C19": ("exploration", "property-based testing over generated thread schedules, one fresh child process per schedule (the settings are write-once per process); agreement/first-writer/return-value oracles over all observers plus boundary enumeration of every decoder at limit-1/limit/limit+1",
         "Generated schedules (setting x 2-8 setter/user threads x release delays x follow-up observers; racing or sequential) are executed in fresh processes; all observations must agree on one value proposed by a thread that started before any thread finished, setters must be told the truth, and for the allocation limit every decoder entry point is probed around the value in force.",
         "Interleavings are sampled by the OS scheduler (threads released at a common instant of the monotonic clock), not enumerated: a race window of a few nanoseconds is found only with some probability per run; replay files fix the schedule, not the interleaving.", "DESIGN.md §4 C19"),
}
NOT_YET = {}

def main():
    props = [json.loads(l) for l in open(os.path.join(ROOT, "properties.jsonl"))]
    checks = []
    na = []
    for p in props:
        pid = p["id"]
        if pid in CHECKS:
            cat, tech, text, note, ref = CHECKS[pid]
            checks.append({
                "property_id": pid,
                "quick_cmd": f"./check {pid} --tier quick",
                "thorough_cmd": f"./check {pid} --tier thorough",
                "evidence_file": f"/verif/evidence/{pid}.json",
                "replay_cmd_template": f"./check {pid} --replay {{path}}",
                "engine": "avro-verif",
                "level_claimed": {"category": cat, "text": text, "design_ref": ref},
                "level_note": note,
                "technique": tech,
            })
        else:
            na.append({"property_id": pid, "reason": NOT_YET.get(pid, "check not built yet in this round (planned: see DESIGN.md §4); not a claim that the technique cannot apply")})
    m = {
        "version": 1,
        "setup_cmd": "cd /verif/harness && CARGO_NET_OFFLINE=true cargo build --release --offline",
        "hooks": {
            "guard": "--cfg apache_avro_rs_verif",
            "enable": "none needed: every observation point is reachable through the public API; the harness links /repo/avro as a path dependency",
            "baseline_off_cmd": "cd /repo && cargo nextest run --workspace --no-fail-fast --offline || cargo test --workspace --no-fail-fast --offline",
            "source_commits": [],
            "add_only": True,
        },
        "engines": [{"name": "avro-verif", "path": "/verif/harness", "serves_properties": sorted(CHECKS), "kind_free_text": "Rust binary: proptest-driven choice-sequence generators, reference implementations as oracles, shrinking to replay files"}],
        "checks": checks,
        "not_applicable": na,
        "notes": "exit 0 = held on everything explored (KNOWN-FINDING lines possible); 1 = VIOLATION; 2 = inconclusive/infrastructure. VERIF_SEED selects the PRNG seed; VERIF_TIER or --tier the depth.",
    }
    json.dump(m, open(os.path.join(ROOT, "MANIFEST.json"), "w"), indent=1)
    print("wrote MANIFEST.json:", len(checks), "checks,", len(na), "not_applicable")

if __name__ == "__main__":
    main()
