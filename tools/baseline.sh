#!/bin/bash
# Run the repository's pinned baseline (guard off) and print pass/fail counts.
cd /repo
if [ -f /w/lib/nextest.toml ]; then
  cargo nextest run --workspace --no-fail-fast --tool-config-file pb:/w/lib/nextest.toml --profile pb --test-threads 8 --offline 2>&1 | tail -15
else
  cargo nextest run --workspace --no-fail-fast --test-threads 8 --offline 2>&1 | tail -15
fi
