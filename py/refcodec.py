#!/usr/bin/env python3
"""Reference codec helper: one request per line `<op> <hex>` -> `ok <hex>` | `err <msg>`.
Standard library only (zlib raw deflate, bz2, lzma/xz, hashlib, binascii)."""
import sys, zlib, bz2, lzma, hashlib, binascii

def handle(op, data):
    if op.startswith("deflate_c"):
        level = int(op[len("deflate_c"):])
        c = zlib.compressobj(level, zlib.DEFLATED, -15)
        return c.compress(data) + c.flush()
    if op == "deflate_d":
        d = zlib.decompressobj(-15)
        out = d.decompress(data) + d.flush()
        if not d.eof or d.unused_data:
            raise ValueError("raw deflate stream incomplete or trailing data")
        return out
    if op.startswith("bz2_c"):
        return bz2.compress(data, int(op[len("bz2_c"):]))
    if op == "bz2_d":
        d = bz2.BZ2Decompressor()
        out = d.decompress(data)
        if not d.eof or d.unused_data:
            raise ValueError("bzip2 stream incomplete or trailing data")
        return out
    if op.startswith("xz_c"):
        return lzma.compress(data, format=lzma.FORMAT_XZ, preset=int(op[len("xz_c"):]))
    if op == "xz_d":
        d = lzma.LZMADecompressor(format=lzma.FORMAT_XZ)
        out = d.decompress(data)
        if not d.eof or d.unused_data:
            raise ValueError("xz stream incomplete or trailing data")
        return out
    if op == "md5":
        return hashlib.md5(data).digest()
    if op == "sha256":
        return hashlib.sha256(data).digest()
    if op == "crc32":
        return (zlib.crc32(data) & 0xffffffff).to_bytes(4, "big")
    if op == "ping":
        return b""
    raise ValueError("unknown op " + op)

def main():
    out = sys.stdout
    for line in sys.stdin:
        parts = line.rstrip("\n").split(" ")
        op = parts[0]
        try:
            data = binascii.unhexlify(parts[1]) if len(parts) > 1 and parts[1] else b""
            res = handle(op, data)
            out.write("ok " + binascii.hexlify(res).decode() + "\n")
        except Exception as e:  # reported to the caller, which decides
            out.write("err " + type(e).__name__ + ": " + str(e).replace("\n", " ") + "\n")
        out.flush()

if __name__ == "__main__":
    main()
