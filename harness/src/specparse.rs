//! Schema JSON text -> SNode (harness parser, spec rules). Used for hand-written
//! small schemas and by the reference PCF / well-formedness code.

use crate::json::{self, Js};
use crate::props::common::Subject;
use crate::spec::*;

pub fn subject_from_text(text: &str) -> Result<Subject, String> {
    let js = json::parse_strict(text).map_err(|e| format!("{e:?}"))?;
    let node = node_from_js(&js, "")?;
    let env = env_of(&node);
    let schema = apache_avro::Schema::parse_str(text).map_err(|e| format!("library rejects small schema {text}: {e}"))?;
    Ok(Subject { node, env, text: text.to_string(), schema })
}

pub fn node_from_text(text: &str) -> Result<SNode, String> {
    let js = json::parse_strict(text).map_err(|e| format!("{e:?}"))?;
    node_from_js(&js, "")
}

fn prim(name: &str) -> Option<SType> {
    Some(match name {
        "null" => SType::Null,
        "boolean" => SType::Boolean,
        "int" => SType::Int,
        "long" => SType::Long,
        "float" => SType::Float,
        "double" => SType::Double,
        "bytes" => SType::Bytes,
        "string" => SType::String,
        _ => return None,
    })
}

fn qualify(name: &str, enclosing: &str) -> String {
    if name.contains('.') || enclosing.is_empty() {
        name.trim_start_matches('.').to_string()
    } else {
        format!("{enclosing}.{name}")
    }
}

fn named_from(obj: &Js, enclosing: &str) -> Result<Named, String> {
    let name = obj.get("name").and_then(|n| n.as_str()).ok_or("named type without name")?;
    let (ns, simple, style) = if let Some(i) = name.rfind('.') {
        (name[..i].to_string(), name[i + 1..].to_string(), NsStyle::Dotted)
    } else if let Some(ns) = obj.get("namespace").and_then(|n| n.as_str()) {
        (ns.to_string(), name.to_string(), NsStyle::Attr)
    } else {
        (enclosing.to_string(), name.to_string(), NsStyle::Inherit)
    };
    let aliases = obj.get("aliases").and_then(|a| a.as_arr()).map(|a| a.iter().filter_map(|x| x.as_str().map(|s| s.to_string())).collect()).unwrap_or_default();
    let doc = obj.get("doc").and_then(|d| d.as_str()).map(|s| s.to_string());
    Ok(Named { name: simple, ns, style, aliases, doc })
}

const NODE_KEYS: &[&str] = &["type", "name", "namespace", "doc", "aliases", "logicalType", "fields", "symbols", "items", "values", "size", "default", "precision", "scale"];

pub fn node_from_js(js: &Js, enclosing: &str) -> Result<SNode, String> {
    match js {
        Js::Str(s) => match prim(s) {
            Some(t) => Ok(SNode::prim(t)),
            None => Ok(SNode::prim(SType::Ref(qualify(s, enclosing)))),
        },
        Js::Arr(bs) => Ok(SNode::prim(SType::Union(bs.iter().map(|b| node_from_js(b, enclosing)).collect::<Result<_, _>>()?))),
        Js::Obj(items) => {
            let ty = js.get("type").ok_or("object without type")?;
            let mut node = match ty {
                Js::Str(t) => match t.as_str() {
                    "array" => SNode::prim(SType::Array(Box::new(node_from_js(js.get("items").ok_or("array without items")?, enclosing)?))),
                    "map" => SNode::prim(SType::Map(Box::new(node_from_js(js.get("values").ok_or("map without values")?, enclosing)?))),
                    "record" | "error" => {
                        let named = named_from(js, enclosing)?;
                        let mut fields = vec![];
                        for f in js.get("fields").and_then(|f| f.as_arr()).ok_or("record without fields")? {
                            let fname = f.get("name").and_then(|n| n.as_str()).ok_or("field without name")?;
                            let fnode = node_from_js(f.get("type").ok_or("field without type")?, &named.ns)?;
                            let attrs = f.as_obj().unwrap_or(&[]).iter().filter(|(k, _)| !["name", "type", "doc", "default", "aliases", "order"].contains(&k.as_str())).cloned().collect();
                            fields.push(FieldSpec {
                                name: fname.to_string(),
                                node: fnode,
                                default: f.get("default").cloned(),
                                doc: f.get("doc").and_then(|d| d.as_str()).map(|s| s.to_string()),
                                aliases: f.get("aliases").and_then(|a| a.as_arr()).map(|a| a.iter().filter_map(|x| x.as_str().map(|s| s.to_string())).collect()).unwrap_or_default(),
                                order: f.get("order").and_then(|d| d.as_str()).map(|s| s.to_string()),
                                attrs,
                            });
                        }
                        SNode::prim(SType::Record(named, fields))
                    }
                    "enum" => {
                        let named = named_from(js, enclosing)?;
                        let symbols = js.get("symbols").and_then(|s| s.as_arr()).ok_or("enum without symbols")?.iter().filter_map(|x| x.as_str().map(|s| s.to_string())).collect();
                        let default = js.get("default").and_then(|d| d.as_str()).map(|s| s.to_string());
                        SNode::prim(SType::Enum(named, symbols, default))
                    }
                    "fixed" => {
                        let named = named_from(js, enclosing)?;
                        let size = js.get("size").and_then(|s| s.as_i128()).ok_or("fixed without size")? as usize;
                        SNode::prim(SType::Fixed(named, size))
                    }
                    other => match prim(other) {
                        Some(t) => {
                            let mut n = SNode::prim(t);
                            n.wrap = true;
                            n
                        }
                        None => SNode::prim(SType::Ref(qualify(other, enclosing))),
                    },
                },
                nested => node_from_js(nested, enclosing)?,
            };
            if let Some(l) = js.get("logicalType").and_then(|l| l.as_str()) {
                node.logical = logical_for(l, &node, js);
            }
            node.attrs = items.iter().filter(|(k, _)| !NODE_KEYS.contains(&k.as_str())).cloned().collect();
            Ok(node)
        }
        _ => Err("schema must be string, array or object".into()),
    }
}

/// Logical type if it applies to the base type (spec: otherwise ignored).
fn logical_for(l: &str, node: &SNode, js: &Js) -> Option<Logical> {
    let base = &node.ty;
    Some(match (l, base) {
        ("date", SType::Int) => Logical::Date,
        ("time-millis", SType::Int) => Logical::TimeMillis,
        ("time-micros", SType::Long) => Logical::TimeMicros,
        ("timestamp-millis", SType::Long) => Logical::TimestampMillis,
        ("timestamp-micros", SType::Long) => Logical::TimestampMicros,
        ("timestamp-nanos", SType::Long) => Logical::TimestampNanos,
        ("local-timestamp-millis", SType::Long) => Logical::LocalTimestampMillis,
        ("local-timestamp-micros", SType::Long) => Logical::LocalTimestampMicros,
        ("local-timestamp-nanos", SType::Long) => Logical::LocalTimestampNanos,
        ("decimal", SType::Bytes | SType::Fixed(..)) => {
            let precision = js.get("precision").and_then(|p| p.as_i128())?;
            let scale = js.get("scale").and_then(|p| p.as_i128()).unwrap_or(0);
            if precision < 1 || scale < 0 || scale > precision {
                return None;
            }
            Logical::Decimal { precision: precision as usize, scale: scale as usize }
        }
        ("big-decimal", SType::Bytes) => Logical::BigDecimal,
        ("uuid", SType::String | SType::Bytes) => Logical::Uuid,
        ("uuid", SType::Fixed(_, 16)) => Logical::Uuid,
        ("duration", SType::Fixed(_, 12)) => Logical::Duration,
        _ => return None,
    })
}
