//! Reference Avro binary codec, written from the specification text. Shares no
//! code with the library. Encoder takes a layout plan (block partition, signed
//! counts, map order); decoder accepts every legal layout, is strict about
//! everything else and reports bytes consumed.

use crate::choices::Choices;
use crate::spec::*;
use num_bigint::{BigInt, Sign};

// ------------------------------------------------------------ primitives

/// zig-zag by arithmetic: n>=0 -> 2n, n<0 -> -2n-1; then base-128 LE groups.
pub fn put_long(n: i64, out: &mut Vec<u8>) {
    let n = n as i128;
    let mut z: u128 = if n >= 0 { (2 * n) as u128 } else { (-2 * n - 1) as u128 };
    loop {
        let g = (z % 128) as u8;
        z /= 128;
        if z == 0 {
            out.push(g);
            break;
        } else {
            out.push(g | 0x80);
        }
    }
}

pub fn long_bytes(n: i64) -> Vec<u8> {
    let mut v = vec![];
    put_long(n, &mut v);
    v
}

#[derive(Debug, Clone, PartialEq)]
pub enum DecErr {
    Eof,
    Bad(String),
}

pub struct Cur<'a> {
    pub b: &'a [u8],
    pub pos: usize,
    /// a block written with a negative count announces its size in bytes: insist that it is right
    pub strict_sizes: bool,
}

impl<'a> Cur<'a> {
    pub fn new(b: &'a [u8]) -> Self {
        Cur { b, pos: 0, strict_sizes: false }
    }
    pub fn take(&mut self, n: usize) -> Result<&'a [u8], DecErr> {
        if self.b.len() - self.pos < n {
            return Err(DecErr::Eof);
        }
        let s = &self.b[self.pos..self.pos + n];
        self.pos += n;
        Ok(s)
    }
    pub fn byte(&mut self) -> Result<u8, DecErr> {
        Ok(self.take(1)?[0])
    }
    /// varint of at most 10 groups -> zig-zag decoded
    pub fn long(&mut self) -> Result<i64, DecErr> {
        let mut z: u128 = 0;
        let mut mul: u128 = 1;
        for i in 0..10 {
            let b = self.byte()?;
            z += (b & 0x7f) as u128 * mul;
            mul *= 128;
            if b & 0x80 == 0 {
                if z > u64::MAX as u128 {
                    return Err(DecErr::Bad("varint exceeds 64 bits".into()));
                }
                let v: i128 = if z % 2 == 0 { (z / 2) as i128 } else { -(((z + 1) / 2) as i128) };
                return Ok(v as i64);
            }
            if i == 9 {
                return Err(DecErr::Bad("varint longer than 10 bytes".into()));
            }
        }
        unreachable!()
    }
    pub fn int(&mut self) -> Result<i32, DecErr> {
        let v = self.long()?;
        i32::try_from(v).map_err(|_| DecErr::Bad(format!("int out of range: {v}")))
    }
    pub fn len(&mut self) -> Result<usize, DecErr> {
        let v = self.long()?;
        if v < 0 {
            return Err(DecErr::Bad(format!("negative length {v}")));
        }
        Ok(v as usize)
    }
}

/// big-endian two's complement; minimal length when `width` is None, else
/// sign-extended to exactly `width` (None if it does not fit).
pub fn twos_complement(v: &BigInt, width: Option<usize>) -> Option<Vec<u8>> {
    // minimal: smallest n with -2^(8n-1) <= v < 2^(8n-1)
    let mut n = 1usize;
    loop {
        let half = BigInt::from(1) << (8 * n - 1);
        if *v >= -&half && *v < half {
            break;
        }
        n += 1;
    }
    let n = match width {
        Some(w) => {
            if w < n {
                return None;
            }
            w
        }
        None => n,
    };
    // value mod 2^(8n)
    let modulus = BigInt::from(1) << (8 * n);
    let mut u = v.clone();
    if u.sign() == Sign::Minus {
        u += &modulus;
    }
    let (_, mut mag) = u.to_bytes_be();
    if mag == [0] && n == 0 {
        mag.clear();
    }
    let mut out = vec![0u8; n - mag.len().min(n)];
    out.extend_from_slice(&mag[mag.len().saturating_sub(n)..]);
    Some(out)
}

pub fn from_twos_complement(b: &[u8]) -> BigInt {
    if b.is_empty() {
        return BigInt::from(0);
    }
    let u = BigInt::from_bytes_be(Sign::Plus, b);
    if b[0] & 0x80 != 0 {
        u - (BigInt::from(1) << (8 * b.len()))
    } else {
        u
    }
}

// ------------------------------------------------------------ layout plans

pub enum Layout<'c, 'd> {
    /// one positive-count block per non-empty array/map, entries in given order
    Canonical,
    /// draw partitions / signs / map order from the choice source
    Random(&'c mut Choices<'d>),
}

#[derive(Default, Debug, Clone)]
pub struct LayoutStats {
    pub multi_block: usize,
    pub negative: usize,
    pub permuted: usize,
}

fn partition(layout: &mut Layout, n: usize, stats: &mut LayoutStats) -> Vec<(usize, bool)> {
    // returns block sizes with "negative count" flag
    if n == 0 {
        return vec![];
    }
    match layout {
        Layout::Canonical => vec![(n, false)],
        Layout::Random(c) => {
            let mut out = vec![];
            let mut left = n;
            while left > 0 {
                let take = if c.chance(1, 2) { left } else { 1 + c.pick(left) };
                let neg = c.chance(1, 2);
                out.push((take, neg));
                left -= take;
            }
            if out.len() > 1 {
                stats.multi_block += 1;
            }
            if out.iter().any(|(_, n)| *n) {
                stats.negative += 1;
            }
            out
        }
    }
}

// ------------------------------------------------------------ encoder

pub fn encode(node: &SNode, v: &V, env: &Env, layout: &mut Layout, stats: &mut LayoutStats) -> Vec<u8> {
    let mut out = vec![];
    enc(node, v, env, layout, stats, &mut out);
    out
}

pub fn encode_canonical(node: &SNode, v: &V, env: &Env) -> Vec<u8> {
    encode(node, v, env, &mut Layout::Canonical, &mut LayoutStats::default())
}

fn put_bytes(b: &[u8], out: &mut Vec<u8>) {
    put_long(b.len() as i64, out);
    out.extend_from_slice(b);
}

fn enc(node: &SNode, v: &V, env: &Env, layout: &mut Layout, stats: &mut LayoutStats, out: &mut Vec<u8>) {
    let node = deref(node, env);
    match (&node.ty, v) {
        (SType::Null, V::Null) => {}
        (SType::Boolean, V::Bool(b)) => out.push(if *b { 1 } else { 0 }),
        (SType::Int, V::Int(i)) => put_long(*i as i64, out),
        (SType::Long, V::Long(i)) => put_long(*i, out),
        (SType::Float, V::Float(bits)) => out.extend_from_slice(&bits.to_le_bytes()),
        (SType::Double, V::Double(bits)) => out.extend_from_slice(&bits.to_le_bytes()),
        (SType::Bytes, V::Bytes(b)) => put_bytes(b, out),
        (SType::String, V::Str(s)) => put_bytes(s.as_bytes(), out),
        (SType::Fixed(_, size), V::Fixed(b)) => {
            assert_eq!(b.len(), *size, "harness: fixed length");
            out.extend_from_slice(b);
        }
        (SType::Enum(..), V::Enum(i)) => put_long(*i as i64, out),
        (SType::Union(bs), V::Union(i, inner)) => {
            put_long(*i as i64, out);
            enc(&bs[*i], inner, env, layout, stats, out);
        }
        (SType::Array(items), V::Array(a)) => {
            let mut idx = 0;
            for (n, neg) in partition(layout, a.len(), stats) {
                let mut block = vec![];
                for x in &a[idx..idx + n] {
                    enc(items, x, env, layout, stats, &mut block);
                }
                idx += n;
                if neg {
                    put_long(-(n as i64), out);
                    put_long(block.len() as i64, out);
                } else {
                    put_long(n as i64, out);
                }
                out.extend_from_slice(&block);
            }
            put_long(0, out);
        }
        (SType::Map(values), V::Map(m)) => {
            let mut order: Vec<usize> = (0..m.len()).collect();
            if let Layout::Random(c) = layout {
                if m.len() >= 2 && c.bool() {
                    // Fisher-Yates from the choice source
                    for i in (1..order.len()).rev() {
                        let j = c.pick(i + 1);
                        order.swap(i, j);
                    }
                    stats.permuted += 1;
                }
            }
            let mut idx = 0;
            for (n, neg) in partition(layout, m.len(), stats) {
                let mut block = vec![];
                for k in &order[idx..idx + n] {
                    let (key, x) = &m[*k];
                    put_bytes(key.as_bytes(), &mut block);
                    enc(values, x, env, layout, stats, &mut block);
                }
                idx += n;
                if neg {
                    put_long(-(n as i64), out);
                    put_long(block.len() as i64, out);
                } else {
                    put_long(n as i64, out);
                }
                out.extend_from_slice(&block);
            }
            put_long(0, out);
        }
        (SType::Record(_, fields), V::Record(r)) => {
            assert_eq!(fields.len(), r.len(), "harness: record arity");
            for (f, x) in fields.iter().zip(r) {
                enc(&f.node, x, env, layout, stats, out);
            }
        }
        // logical types on their physical layout
        (SType::Bytes, V::Decimal(d)) => put_bytes(&twos_complement(d, None).unwrap(), out),
        (SType::Fixed(_, size), V::Decimal(d)) => {
            out.extend_from_slice(&twos_complement(d, Some(*size)).expect("harness: decimal does not fit fixed"))
        }
        (SType::Bytes, V::BigDecimal(unscaled, scale)) => {
            let mut inner = vec![];
            put_bytes(&twos_complement(unscaled, None).unwrap(), &mut inner);
            put_long(*scale, &mut inner);
            put_bytes(&inner, out);
        }
        (SType::String, V::Uuid(u)) => put_bytes(crate::vgen::uuid_text(u).as_bytes(), out),
        (SType::Bytes, V::Uuid(u)) => put_bytes(u, out),
        (SType::Fixed(_, 16), V::Uuid(u)) => out.extend_from_slice(u),
        (SType::Fixed(_, 12), V::Duration(a, b, c)) => {
            out.extend_from_slice(&a.to_le_bytes());
            out.extend_from_slice(&b.to_le_bytes());
            out.extend_from_slice(&c.to_le_bytes());
        }
        (t, v) => panic!("harness: value {v:?} does not fit schema node {t:?}"),
    }
}

// ------------------------------------------------------------ decoder

/// Strict decoder for encoder output: a block's announced byte size must be the size of its items.
pub fn decode(node: &SNode, env: &Env, bytes: &[u8]) -> Result<(V, usize), DecErr> {
    let mut cur = Cur::new(bytes);
    cur.strict_sizes = true;
    let v = dec(node, env, &mut cur, 0)?;
    Ok((v, cur.pos))
}

/// For arbitrary input: block byte sizes are read and ignored (as a reader that does not skip does).
pub fn decode_any_sizes(node: &SNode, env: &Env, bytes: &[u8]) -> Result<(V, usize), DecErr> {
    let mut cur = Cur::new(bytes);
    let v = dec(node, env, &mut cur, 0)?;
    Ok((v, cur.pos))
}

fn dec(node: &SNode, env: &Env, cur: &mut Cur, depth: usize) -> Result<V, DecErr> {
    if depth > 400 {
        return Err(DecErr::Bad("too deep".into()));
    }
    let node = deref(node, env);
    if let Some(l) = &node.logical {
        return match (l, &node.ty) {
            (Logical::Date | Logical::TimeMillis, SType::Int) => Ok(V::Int(cur.int()?)),
            (
                Logical::TimeMicros
                | Logical::TimestampMillis
                | Logical::TimestampMicros
                | Logical::TimestampNanos
                | Logical::LocalTimestampMillis
                | Logical::LocalTimestampMicros
                | Logical::LocalTimestampNanos,
                SType::Long,
            ) => Ok(V::Long(cur.long()?)),
            (Logical::Decimal { .. }, SType::Bytes) => {
                let n = cur.len()?;
                Ok(V::Decimal(from_twos_complement(cur.take(n)?)))
            }
            (Logical::Decimal { .. }, SType::Fixed(_, size)) => Ok(V::Decimal(from_twos_complement(cur.take(*size)?))),
            (Logical::BigDecimal, SType::Bytes) => {
                let n = cur.len()?;
                let inner = cur.take(n)?;
                let mut ic = Cur::new(inner);
                let m = ic.len().map_err(|_| DecErr::Bad("big-decimal framing".into()))?;
                let unscaled = from_twos_complement(ic.take(m).map_err(|_| DecErr::Bad("big-decimal framing".into()))?);
                let scale = ic.long().map_err(|_| DecErr::Bad("big-decimal framing".into()))?;
                if ic.pos != inner.len() {
                    return Err(DecErr::Bad("big-decimal trailing bytes".into()));
                }
                Ok(V::BigDecimal(unscaled, scale))
            }
            (Logical::Uuid, SType::String) => {
                let n = cur.len()?;
                let s = std::str::from_utf8(cur.take(n)?).map_err(|_| DecErr::Bad("uuid not utf-8".into()))?;
                parse_uuid_canonical(s).map(V::Uuid).ok_or(DecErr::Bad(format!("uuid text not canonical: {s:?}")))
            }
            (Logical::Uuid, SType::Bytes) => {
                let n = cur.len()?;
                if n != 16 {
                    return Err(DecErr::Bad("uuid bytes length".into()));
                }
                let mut u = [0u8; 16];
                u.copy_from_slice(cur.take(16)?);
                Ok(V::Uuid(u))
            }
            (Logical::Uuid, SType::Fixed(_, 16)) => {
                let mut u = [0u8; 16];
                u.copy_from_slice(cur.take(16)?);
                Ok(V::Uuid(u))
            }
            (Logical::Duration, SType::Fixed(_, 12)) => {
                let b = cur.take(12)?;
                let f = |i: usize| u32::from_le_bytes([b[i], b[i + 1], b[i + 2], b[i + 3]]);
                Ok(V::Duration(f(0), f(4), f(8)))
            }
            (l, t) => panic!("harness: logical {l:?} on {t:?}"),
        };
    }
    match &node.ty {
        SType::Null => Ok(V::Null),
        SType::Boolean => match cur.byte()? {
            0 => Ok(V::Bool(false)),
            1 => Ok(V::Bool(true)),
            b => Err(DecErr::Bad(format!("boolean byte {b}"))),
        },
        SType::Int => Ok(V::Int(cur.int()?)),
        SType::Long => Ok(V::Long(cur.long()?)),
        SType::Float => {
            let b = cur.take(4)?;
            Ok(V::Float(u32::from_le_bytes([b[0], b[1], b[2], b[3]])))
        }
        SType::Double => {
            let b = cur.take(8)?;
            Ok(V::Double(u64::from_le_bytes(b.try_into().unwrap())))
        }
        SType::Bytes => {
            let n = cur.len()?;
            Ok(V::Bytes(cur.take(n)?.to_vec()))
        }
        SType::String => {
            let n = cur.len()?;
            let s = std::str::from_utf8(cur.take(n)?).map_err(|_| DecErr::Bad("string not utf-8".into()))?;
            Ok(V::Str(s.to_string()))
        }
        SType::Fixed(_, size) => Ok(V::Fixed(cur.take(*size)?.to_vec())),
        SType::Enum(_, symbols, _) => {
            let i = cur.int()?;
            if i < 0 || i as usize >= symbols.len() {
                return Err(DecErr::Bad(format!("enum index {i} of {}", symbols.len())));
            }
            Ok(V::Enum(i as usize))
        }
        SType::Union(bs) => {
            let i = cur.long()?;
            if i < 0 || i as usize >= bs.len() {
                return Err(DecErr::Bad(format!("union index {i} of {}", bs.len())));
            }
            Ok(V::Union(i as usize, Box::new(dec(&bs[i as usize], env, cur, depth + 1)?)))
        }
        SType::Array(items) => {
            let mut out = vec![];
            loop {
                let (n, end) = block_count(cur)?;
                if n == 0 {
                    break;
                }
                for _ in 0..n {
                    if out.len() > 200_000 {
                        return Err(DecErr::Bad("reference decoder item cap".into()));
                    }
                    out.push(dec(items, env, cur, depth + 1)?);
                }
                block_end(cur, end)?;
            }
            Ok(V::Array(out))
        }
        SType::Map(values) => {
            let mut out: Vec<(String, V)> = vec![];
            loop {
                let (n, end) = block_count(cur)?;
                if n == 0 {
                    break;
                }
                for _ in 0..n {
                    let kl = cur.len()?;
                    let k = std::str::from_utf8(cur.take(kl)?).map_err(|_| DecErr::Bad("map key not utf-8".into()))?.to_string();
                    let v = dec(values, env, cur, depth + 1)?;
                    // later duplicate wins, like every implementation's hash map
                    if let Some(e) = out.iter_mut().find(|(k2, _)| *k2 == k) {
                        e.1 = v;
                    } else {
                        out.push((k, v));
                    }
                }
                block_end(cur, end)?;
            }
            Ok(V::Map(out))
        }
        SType::Record(_, fields) => {
            let mut out = vec![];
            for f in fields {
                out.push(dec(&f.node, env, cur, depth + 1)?);
            }
            Ok(V::Record(out))
        }
        SType::Ref(_) => unreachable!(),
    }
}

/// (item count, position at which the block must end if it announced its size)
fn block_count(cur: &mut Cur) -> Result<(u64, Option<usize>), DecErr> {
    let n = cur.long()?;
    if n < 0 {
        let size = cur.long()?;
        if n == i64::MIN {
            return Err(DecErr::Bad("block count overflow".into()));
        }
        if !cur.strict_sizes {
            return Ok(((-n) as u64, None));
        }
        if size < 0 {
            return Err(DecErr::Bad(format!("negative block byte size {size}")));
        }
        Ok(((-n) as u64, Some(cur.pos.saturating_add(size as usize))))
    } else {
        Ok((n as u64, None))
    }
}

fn block_end(cur: &Cur, end: Option<usize>) -> Result<(), DecErr> {
    match end {
        Some(e) if cur.strict_sizes && e != cur.pos => Err(DecErr::Bad(format!("block announced to end at offset {e} but its items end at {}", cur.pos))),
        _ => Ok(()),
    }
}

pub fn parse_uuid_canonical(s: &str) -> Option<[u8; 16]> {
    let b = s.as_bytes();
    if b.len() != 36 {
        return None;
    }
    let mut hexs = String::new();
    for (i, ch) in s.chars().enumerate() {
        if matches!(i, 8 | 13 | 18 | 23) {
            if ch != '-' {
                return None;
            }
        } else {
            if !matches!(ch, '0'..='9' | 'a'..='f') {
                return None;
            }
            hexs.push(ch);
        }
    }
    let v = crate::json::unhex(&hexs)?;
    let mut u = [0u8; 16];
    u.copy_from_slice(&v);
    Some(u)
}

// ------------------------------------------------------------ self tests

/// Golden vectors from the specification text. Panics (=> exit 2) on failure.
pub fn self_test() -> Result<(), String> {
    let zz: &[(i64, &[u8])] = &[
        (0, &[0x00]),
        (-1, &[0x01]),
        (1, &[0x02]),
        (-2, &[0x03]),
        (2, &[0x04]),
        (-64, &[0x7f]),
        (64, &[0x80, 0x01]),
        (8192, &[0x80, 0x80, 0x01]),
        (-8193, &[0x81, 0x80, 0x01]),
    ];
    for (n, bytes) in zz {
        if long_bytes(*n) != *bytes {
            return Err(format!("zigzag encode {n}"));
        }
        let mut c = Cur::new(bytes);
        if c.long() != Ok(*n) {
            return Err(format!("zigzag decode {n}"));
        }
    }
    for n in [i64::MAX, i64::MIN, i32::MAX as i64, i32::MIN as i64] {
        let b = long_bytes(n);
        if Cur::new(&b).long() != Ok(n) {
            return Err(format!("zigzag roundtrip {n}"));
        }
    }
    if long_bytes(i64::MIN).len() != 10 || long_bytes(i64::MAX).len() != 10 {
        return Err("10-byte extremes".into());
    }
    // spec: record {a: long = 27, b: string = "foo"} -> 36 06 66 6f 6f
    let rec = SNode::prim(SType::Record(
        Named { name: "test".into(), ns: "".into(), style: NsStyle::Inherit, aliases: vec![], doc: None },
        vec![
            FieldSpec { name: "a".into(), node: SNode::prim(SType::Long), default: None, doc: None, aliases: vec![], order: None, attrs: vec![] },
            FieldSpec { name: "b".into(), node: SNode::prim(SType::String), default: None, doc: None, aliases: vec![], order: None, attrs: vec![] },
        ],
    ));
    let env = env_of(&rec);
    let v = V::Record(vec![V::Long(27), V::Str("foo".into())]);
    if encode_canonical(&rec, &v, &env) != [0x36, 0x06, 0x66, 0x6f, 0x6f] {
        return Err("spec record example".into());
    }
    // spec: array<long> [3, 27] -> 04 06 36 00
    let arr = SNode::prim(SType::Array(Box::new(SNode::prim(SType::Long))));
    let env = Env::new();
    let v = V::Array(vec![V::Long(3), V::Long(27)]);
    if encode_canonical(&arr, &v, &env) != [0x04, 0x06, 0x36, 0x00] {
        return Err("spec array example".into());
    }
    // spec: union ["null","string"]: null -> 00 ; "a" -> 02 02 61
    let un = SNode::prim(SType::Union(vec![SNode::prim(SType::Null), SNode::prim(SType::String)]));
    if encode_canonical(&un, &V::Union(0, Box::new(V::Null)), &env) != [0x00] {
        return Err("spec union null".into());
    }
    if encode_canonical(&un, &V::Union(1, Box::new(V::Str("a".into()))), &env) != [0x02, 0x02, 0x61] {
        return Err("spec union string".into());
    }
    // negative block count form decodes
    let neg = [0x03u8, 0x04, 0x06, 0x36, 0x00]; // -2, size 2, 3, 27, end
    match decode(&arr, &env, &neg) {
        Ok((V::Array(a), 5)) if a == vec![V::Long(3), V::Long(27)] => {}
        other => return Err(format!("negative block decode: {other:?}")),
    }
    // two's complement
    let cases: &[(i64, &[u8])] = &[(0, &[0]), (1, &[1]), (-1, &[0xff]), (127, &[0x7f]), (128, &[0, 0x80]), (-128, &[0x80]), (-129, &[0xff, 0x7f]), (256, &[1, 0])];
    for (n, b) in cases {
        if twos_complement(&BigInt::from(*n), None).as_deref() != Some(*b) {
            return Err(format!("twos complement {n}"));
        }
        if from_twos_complement(b) != BigInt::from(*n) {
            return Err(format!("from twos complement {n}"));
        }
    }
    if twos_complement(&BigInt::from(-2), Some(3)).as_deref() != Some(&[0xff, 0xff, 0xfe][..]) {
        return Err("sign extension".into());
    }
    if twos_complement(&BigInt::from(128), Some(1)).is_some() {
        return Err("overflow detection".into());
    }
    Ok(())
}
