//! Reference codecs: own CRC-32 (bitwise), own inflate (RFC 1951) + stored/fixed
//! deflate encoders, own snappy block decoder/encoder, and a bridge to the Python
//! standard library (zlib raw, bz2, lzma, hashlib) through a helper process.

use std::cell::RefCell;
use std::io::{BufRead, BufReader, Write};
use std::process::{Child, ChildStdin, ChildStdout, Command, Stdio};

// ---------------------------------------------------------------- CRC-32

/// CRC-32 (IEEE 802.3, reflected, poly 0xEDB88320), bit by bit.
pub fn crc32(data: &[u8]) -> u32 {
    let mut crc: u32 = 0xFFFF_FFFF;
    for b in data {
        crc ^= *b as u32;
        for _ in 0..8 {
            if crc & 1 != 0 {
                crc = (crc >> 1) ^ 0xEDB8_8320;
            } else {
                crc >>= 1;
            }
        }
    }
    !crc
}

// ---------------------------------------------------------------- inflate

struct BitReader<'a> {
    data: &'a [u8],
    pos: usize,
    bit: u32,
}

impl<'a> BitReader<'a> {
    fn bit(&mut self) -> Result<u32, String> {
        if self.pos >= self.data.len() {
            return Err("inflate: unexpected end".into());
        }
        let b = (self.data[self.pos] >> self.bit) & 1;
        self.bit += 1;
        if self.bit == 8 {
            self.bit = 0;
            self.pos += 1;
        }
        Ok(b as u32)
    }
    fn bits(&mut self, n: u32) -> Result<u32, String> {
        let mut v = 0;
        for i in 0..n {
            v |= self.bit()? << i;
        }
        Ok(v)
    }
    fn align(&mut self) {
        if self.bit != 0 {
            self.bit = 0;
            self.pos += 1;
        }
    }
}

struct Huffman {
    counts: [u16; 16],
    symbols: Vec<u16>,
}

impl Huffman {
    fn new(lengths: &[u8]) -> Huffman {
        let mut counts = [0u16; 16];
        for l in lengths {
            counts[*l as usize] += 1;
        }
        counts[0] = 0;
        let mut offs = [0u16; 16];
        for i in 1..16 {
            offs[i] = offs[i - 1] + counts[i - 1];
        }
        let mut symbols = vec![0u16; lengths.len()];
        for (sym, l) in lengths.iter().enumerate() {
            if *l != 0 {
                symbols[offs[*l as usize] as usize] = sym as u16;
                offs[*l as usize] += 1;
            }
        }
        Huffman { counts, symbols }
    }
    fn decode(&self, br: &mut BitReader) -> Result<u16, String> {
        let mut code: i32 = 0;
        let mut first: i32 = 0;
        let mut index: i32 = 0;
        for len in 1..16 {
            code |= br.bit()? as i32;
            let count = self.counts[len] as i32;
            if code - count < first {
                return Ok(self.symbols[(index + (code - first)) as usize]);
            }
            index += count;
            first += count;
            first <<= 1;
            code <<= 1;
        }
        Err("inflate: bad code".into())
    }
}

const LEN_BASE: [u16; 29] = [3, 4, 5, 6, 7, 8, 9, 10, 11, 13, 15, 17, 19, 23, 27, 31, 35, 43, 51, 59, 67, 83, 99, 115, 131, 163, 195, 227, 258];
const LEN_EXTRA: [u8; 29] = [0, 0, 0, 0, 0, 0, 0, 0, 1, 1, 1, 1, 2, 2, 2, 2, 3, 3, 3, 3, 4, 4, 4, 4, 5, 5, 5, 5, 0];
const DIST_BASE: [u16; 30] = [1, 2, 3, 4, 5, 7, 9, 13, 17, 25, 33, 49, 65, 97, 129, 193, 257, 385, 513, 769, 1025, 1537, 2049, 3073, 4097, 6145, 8193, 12289, 16385, 24577];
const DIST_EXTRA: [u8; 30] = [0, 0, 0, 0, 1, 1, 2, 2, 3, 3, 4, 4, 5, 5, 6, 6, 7, 7, 8, 8, 9, 9, 10, 10, 11, 11, 12, 12, 13, 13];

/// Raw RFC 1951 inflate. Returns (output, input bytes consumed).
pub fn inflate(data: &[u8], max_out: usize) -> Result<(Vec<u8>, usize), String> {
    let mut br = BitReader { data, pos: 0, bit: 0 };
    let mut out: Vec<u8> = vec![];
    loop {
        let last = br.bit()?;
        let ty = br.bits(2)?;
        match ty {
            0 => {
                br.align();
                if br.pos + 4 > data.len() {
                    return Err("inflate: stored header".into());
                }
                let len = u16::from_le_bytes([data[br.pos], data[br.pos + 1]]) as usize;
                let nlen = u16::from_le_bytes([data[br.pos + 2], data[br.pos + 3]]) as usize;
                if len != (!nlen & 0xffff) {
                    return Err("inflate: stored length check".into());
                }
                br.pos += 4;
                if br.pos + len > data.len() {
                    return Err("inflate: stored data".into());
                }
                out.extend_from_slice(&data[br.pos..br.pos + len]);
                br.pos += len;
            }
            1 | 2 => {
                let (lit, dist) = if ty == 1 {
                    let mut l = [0u8; 288];
                    for (i, x) in l.iter_mut().enumerate() {
                        *x = if i < 144 {
                            8
                        } else if i < 256 {
                            9
                        } else if i < 280 {
                            7
                        } else {
                            8
                        };
                    }
                    (Huffman::new(&l), Huffman::new(&[5u8; 30]))
                } else {
                    let hlit = br.bits(5)? as usize + 257;
                    let hdist = br.bits(5)? as usize + 1;
                    let hclen = br.bits(4)? as usize + 4;
                    const ORDER: [usize; 19] = [16, 17, 18, 0, 8, 7, 9, 6, 10, 5, 11, 4, 12, 3, 13, 2, 14, 1, 15];
                    let mut cl = [0u8; 19];
                    for i in 0..hclen {
                        cl[ORDER[i]] = br.bits(3)? as u8;
                    }
                    let clh = Huffman::new(&cl);
                    let mut lengths = vec![0u8; hlit + hdist];
                    let mut i = 0;
                    while i < hlit + hdist {
                        let sym = clh.decode(&mut br)?;
                        match sym {
                            0..=15 => {
                                lengths[i] = sym as u8;
                                i += 1;
                            }
                            16 => {
                                if i == 0 {
                                    return Err("inflate: repeat without previous".into());
                                }
                                let prev = lengths[i - 1];
                                let n = 3 + br.bits(2)? as usize;
                                for _ in 0..n {
                                    if i >= lengths.len() {
                                        return Err("inflate: too many lengths".into());
                                    }
                                    lengths[i] = prev;
                                    i += 1;
                                }
                            }
                            17 | 18 => {
                                let n = if sym == 17 { 3 + br.bits(3)? as usize } else { 11 + br.bits(7)? as usize };
                                for _ in 0..n {
                                    if i >= lengths.len() {
                                        return Err("inflate: too many lengths".into());
                                    }
                                    lengths[i] = 0;
                                    i += 1;
                                }
                            }
                            _ => return Err("inflate: bad length symbol".into()),
                        }
                    }
                    (Huffman::new(&lengths[..hlit]), Huffman::new(&lengths[hlit..]))
                };
                loop {
                    let sym = lit.decode(&mut br)?;
                    if sym < 256 {
                        out.push(sym as u8);
                    } else if sym == 256 {
                        break;
                    } else {
                        let s = (sym - 257) as usize;
                        if s >= 29 {
                            return Err("inflate: bad length code".into());
                        }
                        let len = LEN_BASE[s] as usize + br.bits(LEN_EXTRA[s] as u32)? as usize;
                        let ds = dist.decode(&mut br)? as usize;
                        if ds >= 30 {
                            return Err("inflate: bad distance code".into());
                        }
                        let d = DIST_BASE[ds] as usize + br.bits(DIST_EXTRA[ds] as u32)? as usize;
                        if d > out.len() {
                            return Err("inflate: distance too far".into());
                        }
                        for _ in 0..len {
                            out.push(out[out.len() - d]);
                        }
                    }
                    if out.len() > max_out {
                        return Err("inflate: output limit".into());
                    }
                }
            }
            _ => return Err("inflate: reserved block type".into()),
        }
        if out.len() > max_out {
            return Err("inflate: output limit".into());
        }
        if last == 1 {
            break;
        }
    }
    br.align();
    Ok((out, br.pos))
}

/// Raw deflate using stored blocks only.
pub fn deflate_stored(data: &[u8]) -> Vec<u8> {
    let mut out = vec![];
    if data.is_empty() {
        out.extend_from_slice(&[0x01, 0x00, 0x00, 0xff, 0xff]);
        return out;
    }
    let chunks: Vec<&[u8]> = data.chunks(65535).collect();
    for (i, ch) in chunks.iter().enumerate() {
        out.push(if i + 1 == chunks.len() { 1 } else { 0 });
        out.extend_from_slice(&(ch.len() as u16).to_le_bytes());
        out.extend_from_slice(&(!(ch.len() as u16)).to_le_bytes());
        out.extend_from_slice(ch);
    }
    out
}

struct BitWriter {
    out: Vec<u8>,
    cur: u8,
    n: u32,
}
impl BitWriter {
    fn bit(&mut self, b: u32) {
        self.cur |= ((b & 1) as u8) << self.n;
        self.n += 1;
        if self.n == 8 {
            self.out.push(self.cur);
            self.cur = 0;
            self.n = 0;
        }
    }
    /// huffman code: most significant bit first
    fn code(&mut self, code: u32, len: u32) {
        for i in (0..len).rev() {
            self.bit(code >> i);
        }
    }
    fn finish(mut self) -> Vec<u8> {
        if self.n > 0 {
            self.out.push(self.cur);
        }
        self.out
    }
}

/// Raw deflate with one fixed-Huffman block, literals only.
pub fn deflate_fixed_literals(data: &[u8]) -> Vec<u8> {
    let mut w = BitWriter { out: vec![], cur: 0, n: 0 };
    w.bit(1); // final
    w.bit(1); // type 01 (LSB first: 1, 0)
    w.bit(0);
    for b in data {
        let b = *b as u32;
        if b < 144 {
            w.code(0x30 + b, 8);
        } else {
            w.code(0x190 + (b - 144), 9);
        }
    }
    w.code(0, 7); // end of block
    w.finish()
}

// ---------------------------------------------------------------- snappy

/// Snappy raw block decode (format description: varint length, then elements).
pub fn snappy_decode(data: &[u8], max_out: usize) -> Result<Vec<u8>, String> {
    let mut pos = 0;
    let mut len: u64 = 0;
    let mut shift = 0;
    loop {
        if pos >= data.len() || shift > 35 {
            return Err("snappy: bad length".into());
        }
        let b = data[pos];
        pos += 1;
        len |= ((b & 0x7f) as u64) << shift;
        if b & 0x80 == 0 {
            break;
        }
        shift += 7;
    }
    if len as usize > max_out {
        return Err("snappy: declared length over limit".into());
    }
    let mut out: Vec<u8> = Vec::with_capacity(len as usize);
    while pos < data.len() {
        let tag = data[pos];
        pos += 1;
        match tag & 3 {
            0 => {
                let mut l = (tag >> 2) as usize;
                if l >= 60 {
                    let nb = l - 59;
                    if pos + nb > data.len() {
                        return Err("snappy: literal length".into());
                    }
                    l = 0;
                    for i in 0..nb {
                        l |= (data[pos + i] as usize) << (8 * i);
                    }
                    pos += nb;
                }
                let l = l + 1;
                if pos + l > data.len() {
                    return Err("snappy: literal data".into());
                }
                out.extend_from_slice(&data[pos..pos + l]);
                pos += l;
            }
            k => {
                let (l, off) = match k {
                    1 => {
                        if pos >= data.len() {
                            return Err("snappy: copy1".into());
                        }
                        let l = 4 + ((tag >> 2) & 7) as usize;
                        let off = (((tag >> 5) as usize) << 8) | data[pos] as usize;
                        pos += 1;
                        (l, off)
                    }
                    2 => {
                        if pos + 2 > data.len() {
                            return Err("snappy: copy2".into());
                        }
                        let l = 1 + (tag >> 2) as usize;
                        let off = u16::from_le_bytes([data[pos], data[pos + 1]]) as usize;
                        pos += 2;
                        (l, off)
                    }
                    _ => {
                        if pos + 4 > data.len() {
                            return Err("snappy: copy4".into());
                        }
                        let l = 1 + (tag >> 2) as usize;
                        let off = u32::from_le_bytes([data[pos], data[pos + 1], data[pos + 2], data[pos + 3]]) as usize;
                        pos += 4;
                        (l, off)
                    }
                };
                if off == 0 || off > out.len() {
                    return Err("snappy: bad offset".into());
                }
                for _ in 0..l {
                    out.push(out[out.len() - off]);
                }
            }
        }
        if out.len() > len as usize {
            return Err("snappy: output longer than declared".into());
        }
    }
    if out.len() != len as usize {
        return Err("snappy: output shorter than declared".into());
    }
    Ok(out)
}

/// Snappy raw block encode: literals, plus 2-byte-offset copies for byte runs.
pub fn snappy_encode(data: &[u8]) -> Vec<u8> {
    let mut out = vec![];
    let mut n = data.len() as u64;
    loop {
        let b = (n & 0x7f) as u8;
        n >>= 7;
        if n == 0 {
            out.push(b);
            break;
        }
        out.push(b | 0x80);
    }
    fn literal(out: &mut Vec<u8>, lit: &[u8]) {
        for ch in lit.chunks(65536) {
            let l = ch.len() - 1;
            if l < 60 {
                out.push((l as u8) << 2);
            } else if l < 256 {
                out.push(60 << 2);
                out.push(l as u8);
            } else {
                out.push(61 << 2);
                out.extend_from_slice(&(l as u16).to_le_bytes());
            }
            out.extend_from_slice(ch);
        }
    }
    let mut i = 0;
    let mut lit_start = 0;
    while i < data.len() {
        // run of the same byte, at least 8 long, preceded by at least one byte of it
        if i > 0 && data[i] == data[i - 1] {
            let mut j = i;
            while j < data.len() && data[j] == data[i - 1] && j - i < 64 {
                j += 1;
            }
            if j - i >= 8 {
                if lit_start < i {
                    literal(&mut out, &data[lit_start..i]);
                }
                let l = j - i;
                out.push((((l - 1) as u8) << 2) | 2);
                out.extend_from_slice(&1u16.to_le_bytes());
                i = j;
                lit_start = i;
                continue;
            }
        }
        i += 1;
    }
    if lit_start < data.len() {
        literal(&mut out, &data[lit_start..]);
    }
    out
}

/// Avro's snappy framing: raw block followed by big-endian CRC-32 of the uncompressed data.
pub fn avro_snappy_frame(data: &[u8]) -> Vec<u8> {
    let mut out = snappy_encode(data);
    out.extend_from_slice(&crc32(data).to_be_bytes());
    out
}

// ---------------------------------------------------------------- python bridge

struct Py {
    _child: Child,
    stdin: ChildStdin,
    stdout: BufReader<ChildStdout>,
}

thread_local! {
    static PY: RefCell<Option<Py>> = const { RefCell::new(None) };
}

fn py_script() -> std::path::PathBuf {
    crate::runner::verif_root().join("py").join("refcodec.py")
}

/// One request to the helper: op + payload -> Ok(bytes) | Err(message).
pub fn py(op: &str, payload: &[u8]) -> Result<Vec<u8>, String> {
    PY.with(|cell| {
        let mut g = cell.borrow_mut();
        if g.is_none() {
            let mut child = Command::new("python3")
                .arg(py_script())
                .stdin(Stdio::piped())
                .stdout(Stdio::piped())
                .stderr(Stdio::null())
                .spawn()
                .map_err(|e| format!("HARNESS: cannot start python helper: {e}"))?;
            let stdin = child.stdin.take().unwrap();
            let stdout = BufReader::new(child.stdout.take().unwrap());
            *g = Some(Py { _child: child, stdin, stdout });
        }
        let p = g.as_mut().unwrap();
        let line = format!("{op} {}\n", crate::json::hex(payload));
        p.stdin.write_all(line.as_bytes()).map_err(|e| format!("HARNESS: python helper write: {e}"))?;
        p.stdin.flush().map_err(|e| format!("HARNESS: python helper flush: {e}"))?;
        let mut resp = String::new();
        p.stdout.read_line(&mut resp).map_err(|e| format!("HARNESS: python helper read: {e}"))?;
        let resp = resp.trim_end();
        if let Some(h) = resp.strip_prefix("ok ") {
            crate::json::unhex(h).ok_or_else(|| "HARNESS: python helper bad hex".to_string())
        } else if resp == "ok" {
            Ok(vec![])
        } else if let Some(m) = resp.strip_prefix("err ") {
            Err(m.to_string())
        } else {
            Err(format!("HARNESS: python helper said {resp:?}"))
        }
    })
}

// ---------------------------------------------------------------- self tests

pub fn self_test() -> Result<(), String> {
    if crc32(b"123456789") != 0xCBF4_3926 {
        return Err("crc32 check value".into());
    }
    if crc32(b"") != 0 {
        return Err("crc32 empty".into());
    }
    // stored block
    let s = deflate_stored(b"hello");
    if inflate(&s, 1000)? != (b"hello".to_vec(), s.len()) {
        return Err("inflate stored".into());
    }
    // fixed block produced by our encoder
    let data: Vec<u8> = (0..=255u8).collect();
    let f = deflate_fixed_literals(&data);
    if inflate(&f, 1000)?.0 != data {
        return Err("inflate fixed".into());
    }
    // known fixed-huffman stream with a match: zlib raw deflate of b"aaaaaaaaaa" = 4b 4c 84 01 00
    if inflate(&[0x4b, 0x4c, 0x84, 0x01, 0x00], 1000)?.0 != b"aaaaaaaaaa" {
        return Err("inflate fixed with match".into());
    }
    // dynamic block: python zlib output checked through the bridge below when available
    // snappy
    for sample in [&b""[..], b"a", b"hello hello hello hello", &[7u8; 300][..], &data[..]] {
        let e = snappy_encode(sample);
        if snappy_decode(&e, 1 << 20)? != sample {
            return Err("snappy roundtrip".into());
        }
    }
    // snappy golden from the format description: "Wikipedia" literal
    let g = [0x09u8, 0x20, b'W', b'i', b'k', b'i', b'p', b'e', b'd', b'i', b'a'];
    if snappy_decode(&g, 100)? != b"Wikipedia" {
        return Err("snappy golden".into());
    }
    Ok(())
}

/// Cross-check own inflate against Python zlib on dynamic-Huffman output (needs the helper).
pub fn self_test_with_python() -> Result<(), String> {
    let mut text = vec![];
    for i in 0..2000u32 {
        text.extend_from_slice(format!("line {} of some text that compresses; ", i % 37).as_bytes());
    }
    let z = py("deflate_c9", &text)?;
    let (o, used) = inflate(&z, 1 << 22)?;
    if o != text || used != z.len() {
        return Err("own inflate disagrees with python zlib on a dynamic block".into());
    }
    let back = py("deflate_d", &deflate_fixed_literals(b"reference"))?;
    if back != b"reference" {
        return Err("python zlib rejects own fixed-huffman stream".into());
    }
    if py("crc32", b"123456789")? != 0xCBF4_3926u32.to_be_bytes() {
        return Err("python crc32 disagrees".into());
    }
    Ok(())
}
