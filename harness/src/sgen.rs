//! Schema generator: Choices -> SNode. Construction only, no rejection.

use crate::choices::Choices;
use crate::json::Js;
use crate::spec::*;
use crate::vgen;

#[derive(Clone, Debug)]
pub struct SgenCfg {
    pub max_depth: usize,
    pub node_budget: usize,
    pub logical: bool,
    /// docs, aliases, custom attributes, order, {"type":"int"} wrapping
    pub decorations: bool,
    pub defaults: bool,
    pub namespaces: bool,
    /// only the logical types on int and long (no extra choice is drawn; the pick is narrowed)
    pub logical_numeric_only: bool,
    /// let different types share a simple name in different namespaces (no extra choice is drawn when off)
    pub same_simple_names: bool,
    pub recursion: bool,
    pub refs: bool,
    /// allow a null-namespace named type nested in a namespaced one (C10 known finding class)
    pub null_ns_inside: bool,
    /// allow decimal on fixed (C10 duplicate-key class)
    pub decimal_fixed: bool,
    /// allow fixed of size 0
    pub zero_fixed: bool,
    /// allow uuid on bytes / fixed(16) (non-spec, library-specific)
    pub uuid_nonstring: bool,
    pub unions: bool,
    pub max_fields: usize,
    /// weight the root strongly towards a record (container-file profile)
    pub root_record: bool,
    /// emit the `order` field attribute (with decorations)
    pub field_order: bool,
    /// at most one record, one enum and one fixed branch per union (resolution profile: the library
    /// selects named branches by trial resolution, not by name)
    pub single_named_per_union: bool,
}

impl SgenCfg {
    pub fn full() -> Self {
        SgenCfg {
            max_depth: 4,
            node_budget: 40,
            logical: true,
            decorations: false,
            defaults: false,
            namespaces: true,
            logical_numeric_only: false,
            same_simple_names: false,
            recursion: true,
            refs: true,
            null_ns_inside: false,
            decimal_fixed: true,
            zero_fixed: true,
            uuid_nonstring: true,
            unions: true,
            max_fields: 6,
            root_record: false,
            field_order: true,
            single_named_per_union: false,
        }
    }
    pub fn decorated() -> Self {
        SgenCfg {
            decorations: true,
            defaults: true,
            ..Self::full()
        }
    }
}

struct Gen<'c, 'd> {
    c: &'c mut Choices<'d>,
    cfg: &'c SgenCfg,
    budget: usize,
    counter: usize,
    /// closed (fully defined) named types: (fullname, kind)
    closed: Vec<(String, &'static str)>,
    /// records currently being defined (fullname, optional-context level at opening)
    open: Vec<(String, usize)>,
    /// per open record: open records its body (transitively) requires
    frames: Vec<std::collections::BTreeSet<String>>,
    /// closed records: open records they required when closed
    deps: std::collections::BTreeMap<String, std::collections::BTreeSet<String>>,
}

const NAMESPACES: &[&str] = &["", "ns", "a.b", "org.x_y.Z9", "_u"];
const NAME_STEMS: &[&str] = &["R", "e", "Fx", "_t", "Node", "x9_", "A"];
const FIELD_STEMS: &[&str] = &["f", "a", "_v", "Z", "value", "next"];
const SYMBOLS: &[&str] = &["A", "B", "c", "_d", "E9", "spades", "X_Y", "zz"];
const DOCS: &[&str] = &[
    "a doc",
    "quote \" backslash \\ newline \n tab \t",
    "unicode \u{e9}\u{4e2d}\u{1F600} ctl \u{01}",
    "",
];

pub fn gen_schema(c: &mut Choices, cfg: &SgenCfg) -> SNode {
    let mut g = Gen {
        c,
        cfg,
        budget: cfg.node_budget,
        counter: 0,
        closed: vec![],
        open: vec![],
        frames: vec![],
        deps: Default::default(),
    };
    let mut root = g.node(0, "", 0, true);
    if cfg.defaults {
        add_defaults(&mut root, g.c);
    }
    root
}

impl<'c, 'd> Gen<'c, 'd> {
    fn fresh(&mut self, stems: &[&str]) -> String {
        let s = stems[self.c.pick(stems.len())];
        self.counter += 1;
        format!("{}{}", s, self.counter)
    }

    fn named(&mut self, enclosing: &str) -> Named {
        let mut name = self.fresh(NAME_STEMS);
        if self.cfg.same_simple_names && self.cfg.namespaces && self.c.chance(1, 4) {
            // reuse the simple name of an earlier type under another, non-empty namespace
            let earlier: Vec<String> = self.closed.iter().map(|(f, _)| f.clone()).chain(self.open.iter().map(|(f, _)| f.clone())).collect();
            if !earlier.is_empty() {
                let full = &earlier[self.c.pick(earlier.len())];
                let simple = full.rsplit('.').next().unwrap_or(full).to_string();
                let ns = NAMESPACES[1 + self.c.pick(NAMESPACES.len() - 1)].to_string();
                let candidate = format!("{ns}.{simple}");
                if !earlier.iter().any(|e| *e == candidate) {
                    let style = if self.c.bool() { NsStyle::Attr } else { NsStyle::Dotted };
                    name = simple;
                    return Named { name, ns, style, aliases: vec![], doc: None };
                }
            }
        }
        let (ns, style) = if !self.cfg.namespaces {
            (String::new(), NsStyle::Inherit)
        } else {
            match self.c.weighted(&[6, 3, 2, 1]) {
                0 => (enclosing.to_string(), NsStyle::Inherit),
                1 => {
                    // own namespace via attribute
                    let mut ns = NAMESPACES[self.c.pick(NAMESPACES.len())].to_string();
                    if ns.is_empty() && !enclosing.is_empty() && !self.cfg.null_ns_inside {
                        ns = enclosing.to_string();
                    }
                    (ns, NsStyle::Attr)
                }
                2 => {
                    let mut ns = NAMESPACES[self.c.pick(NAMESPACES.len())].to_string();
                    if ns.is_empty() && !enclosing.is_empty() && !self.cfg.null_ns_inside {
                        ns = enclosing.to_string();
                    }
                    (ns, NsStyle::Dotted)
                }
                _ => {
                    let mut ns = NAMESPACES[1 + self.c.pick(NAMESPACES.len() - 1)].to_string();
                    if ns.is_empty() {
                        ns = "ns".into();
                    }
                    (ns, NsStyle::DottedWithAttr)
                }
            }
        };
        let mut n = Named {
            name,
            ns,
            style,
            aliases: vec![],
            doc: None,
        };
        if self.cfg.decorations {
            if self.c.chance(1, 4) {
                n.doc = Some(DOCS[self.c.pick(DOCS.len())].to_string());
            }
            if self.c.chance(1, 4) {
                let k = 1 + self.c.pick(2);
                for _ in 0..k {
                    let a = self.fresh(&["Al", "old_"]);
                    if self.c.chance(1, 3) {
                        n.aliases.push(format!("al.ns.{a}"));
                    } else {
                        n.aliases.push(a);
                    }
                }
            }
        }
        n
    }

    fn attrs(&mut self) -> Vec<(String, Js)> {
        if !self.cfg.decorations || !self.c.chance(1, 5) {
            return vec![];
        }
        let k = 1 + self.c.pick(2);
        let mut out = vec![];
        for i in 0..k {
            let key = format!("{}{}", ["x-attr", "customProp", "java-class"][self.c.pick(3)], i);
            let v = match self.c.pick(6) {
                0 => Js::Null,
                1 => Js::Bool(true),
                2 => Js::int(42),
                3 => Js::str("text \" \\ \u{e9}"),
                4 => Js::Arr(vec![Js::int(1), Js::str("two"), Js::Null]),
                _ => Js::obj(vec![("k", Js::int(-7)), ("nested", Js::obj(vec![("z", Js::Bool(false))]))]),
            };
            out.push((key, v));
        }
        out
    }

    fn primitive(&mut self) -> SNode {
        let ty = match self.c.pick(8) {
            0 => SType::Null,
            1 => SType::Boolean,
            2 => SType::Int,
            3 => SType::Long,
            4 => SType::Float,
            5 => SType::Double,
            6 => SType::Bytes,
            _ => SType::String,
        };
        let mut n = SNode::prim(ty);
        if self.cfg.decorations && self.c.chance(1, 6) {
            n.wrap = true;
        }
        n
    }

    fn fixed(&mut self, enclosing: &str, size: Option<usize>) -> SNode {
        let named = self.named(enclosing);
        let size = size.unwrap_or_else(|| {
            let lo = if self.cfg.zero_fixed { 0 } else { 1 };
            match self.c.weighted(&[6, 2, 1]) {
                0 => lo + self.c.pick(9 - lo),
                1 => 9 + self.c.pick(32),
                _ => [12usize, 16, 64, 200][self.c.pick(4)],
            }
        });
        let full = named.fullname();
        let mut n = SNode::prim(SType::Fixed(named, size));
        n.attrs = self.attrs();
        self.closed.push((full, "fixed"));
        n
    }

    fn logical(&mut self, enclosing: &str) -> SNode {
        match self.c.pick(if self.cfg.logical_numeric_only { 9 } else { 16 }) {
            0 => SNode::prim(SType::Int).with_logical(Logical::Date),
            1 => SNode::prim(SType::Int).with_logical(Logical::TimeMillis),
            2 => SNode::prim(SType::Long).with_logical(Logical::TimeMicros),
            3 => SNode::prim(SType::Long).with_logical(Logical::TimestampMillis),
            4 => SNode::prim(SType::Long).with_logical(Logical::TimestampMicros),
            5 => SNode::prim(SType::Long).with_logical(Logical::TimestampNanos),
            6 => SNode::prim(SType::Long).with_logical(Logical::LocalTimestampMillis),
            7 => SNode::prim(SType::Long).with_logical(Logical::LocalTimestampMicros),
            8 => SNode::prim(SType::Long).with_logical(Logical::LocalTimestampNanos),
            9 | 10 => {
                let pmax = if self.c.chance(1, 4) { 40 } else { 12 };
                let precision = 1 + self.c.pick(pmax);
                let scale = self.c.pick(precision + 1);
                SNode::prim(SType::Bytes).with_logical(Logical::Decimal { precision, scale })
            }
            11 if self.cfg.decimal_fixed => {
                let smax = if self.c.chance(1, 4) { 20 } else { 8 };
                let size = 1 + self.c.pick(smax);
                let maxp = max_prec_for_len(size);
                let precision = 1 + self.c.pick(maxp.max(1));
                let scale = self.c.pick(precision + 1);
                self.fixed(enclosing, Some(size))
                    .with_logical(Logical::Decimal { precision, scale })
            }
            12 => SNode::prim(SType::Bytes).with_logical(Logical::BigDecimal),
            13 => {
                if self.cfg.uuid_nonstring {
                    match self.c.pick(4) {
                        0 => SNode::prim(SType::Bytes).with_logical(Logical::Uuid),
                        1 => self.fixed(enclosing, Some(16)).with_logical(Logical::Uuid),
                        _ => SNode::prim(SType::String).with_logical(Logical::Uuid),
                    }
                } else {
                    SNode::prim(SType::String).with_logical(Logical::Uuid)
                }
            }
            14 => self.fixed(enclosing, Some(12)).with_logical(Logical::Duration),
            _ => SNode::prim(SType::String).with_logical(Logical::Uuid),
        }
    }

    fn enum_(&mut self, enclosing: &str) -> SNode {
        let named = self.named(enclosing);
        let k = 1 + self.c.pick(6);
        let start = self.c.pick(SYMBOLS.len());
        let mut symbols: Vec<String> = vec![];
        for i in 0..k {
            symbols.push(SYMBOLS[(start + i) % SYMBOLS.len()].to_string());
        }
        let default = if self.c.chance(1, 4) {
            Some(symbols[self.c.pick(symbols.len())].clone())
        } else {
            None
        };
        let full = named.fullname();
        let mut n = SNode::prim(SType::Enum(named, symbols, default));
        n.attrs = self.attrs();
        self.closed.push((full, "enum"));
        n
    }

    fn record(&mut self, depth: usize, enclosing: &str, opt_ctx: usize) -> SNode {
        let named = self.named(enclosing);
        let full = named.fullname();
        self.open.push((full.clone(), opt_ctx));
        self.frames.push(Default::default());
        let nf = if depth >= self.cfg.max_depth || self.budget == 0 {
            self.c.pick(2)
        } else {
            self.c.pick(self.cfg.max_fields + 1)
        };
        let mut fields = vec![];
        for _ in 0..nf {
            let fname = self.fresh(FIELD_STEMS);
            let node = self.node(depth + 1, &named.ns, opt_ctx, false);
            let mut f = FieldSpec {
                name: fname,
                node,
                default: None,
                doc: None,
                aliases: vec![],
                order: None,
                attrs: vec![],
            };
            if self.cfg.decorations {
                if self.c.chance(1, 5) {
                    f.doc = Some(DOCS[self.c.pick(DOCS.len())].to_string());
                }
                if self.c.chance(1, 5) {
                    f.aliases.push(self.fresh(&["fa", "old"]));
                }
                if self.cfg.field_order && self.c.chance(1, 6) {
                    f.order = Some(["ascending", "descending", "ignore"][self.c.pick(3)].to_string());
                }
                if self.c.chance(1, 6) {
                    f.attrs = self.attrs();
                }
            }
            fields.push(f);
        }
        self.open.pop();
        let mut set = self.frames.pop().unwrap_or_default();
        set.remove(&full);
        if let Some(parent) = self.frames.last_mut() {
            parent.extend(set.iter().cloned());
        }
        self.deps.insert(full.clone(), set);
        self.closed.push((full, "record"));
        let mut n = SNode::prim(SType::Record(named, fields));
        n.attrs = self.attrs();
        n
    }

    /// `opt_ctx`: number of array/map/non-first-union-branch ancestors. A reference
    /// to an open record admits finite values only if such an ancestor lies
    /// *between* the record and the reference (level at opening < current level).
    fn node(&mut self, depth: usize, enclosing: &str, opt_ctx: usize, root: bool) -> SNode {
        if self.budget == 0 || depth > self.cfg.max_depth {
            return self.primitive();
        }
        self.budget -= 1;
        // weights: primitive, logical, array, map, union, record, enum, fixed, ref, recursive-ref
        // a simple name resolves in the enclosing namespace, so a type without
        // namespace cannot be referenced from inside a namespace
        let ref_cands: Vec<String> = if self.cfg.refs {
            self.closed
                .iter()
                .filter(|(n, _)| enclosing.is_empty() || !ns_of(n).is_empty())
                .filter(|(n, _)| {
                    // a closed record that requires a still-open record is as good as a recursive reference
                    self.deps.get(n).map_or(true, |ds| {
                        ds.iter().all(|d| self.open.iter().find(|(o, _)| o == d).map_or(true, |(_, lvl)| *lvl < opt_ctx))
                    })
                })
                .map(|(n, _)| n.clone())
                .collect()
        } else {
            vec![]
        };
        let rec_cands: Vec<String> = if self.cfg.recursion {
            self.open
                .iter()
                .filter(|(n, lvl)| *lvl < opt_ctx && (enclosing.is_empty() || !ns_of(n).is_empty()))
                .map(|(n, _)| n.clone())
                .collect()
        } else {
            vec![]
        };
        let can_ref = !ref_cands.is_empty();
        let can_rec = !rec_cands.is_empty();
        let deep = depth >= self.cfg.max_depth;
        let w = [
            if root { 4 } else { 8 },
            if self.cfg.logical { 4 } else { 0 },
            if deep { 0 } else { 3 },
            if deep { 0 } else { 3 },
            if deep || !self.cfg.unions { 0 } else { 4 },
            if deep { 0 } else if root && self.cfg.root_record { 60 } else if root { 8 } else { 4 },
            2,
            2,
            if can_ref { 3 } else { 0 },
            if can_rec { 3 } else { 0 },
        ];
        match self.c.weighted(&w) {
            0 => self.primitive(),
            1 => self.logical(enclosing),
            2 => {
                let items = self.node(depth + 1, enclosing, opt_ctx + 1, false);
                let mut n = SNode::prim(SType::Array(Box::new(items)));
                n.attrs = self.attrs();
                n
            }
            3 => {
                let values = self.node(depth + 1, enclosing, opt_ctx + 1, false);
                let mut n = SNode::prim(SType::Map(Box::new(values)));
                n.attrs = self.attrs();
                n
            }
            4 => self.union(depth, enclosing, opt_ctx),
            5 => self.record(depth, enclosing, opt_ctx),
            6 => self.enum_(enclosing),
            7 => self.fixed(enclosing, None),
            8 => {
                let full = ref_cands[self.c.pick(ref_cands.len())].clone();
                if let (Some(ds), Some(frame)) = (self.deps.get(&full).cloned(), self.frames.last_mut()) {
                    frame.extend(ds);
                }
                let mut n = SNode::prim(SType::Ref(full));
                n.ref_full = self.c.chance(1, 4);
                n
            }
            _ => {
                let full = rec_cands[self.c.pick(rec_cands.len())].clone();
                if let Some(frame) = self.frames.last_mut() {
                    frame.insert(full.clone());
                }
                let mut n = SNode::prim(SType::Ref(full));
                n.ref_full = self.c.chance(1, 4);
                n
            }
        }
    }

    fn union(&mut self, depth: usize, enclosing: &str, opt_ctx: usize) -> SNode {
        let k = 1 + self.c.weighted(&[2, 6, 4, 2, 1]);
        let mut branches: Vec<SNode> = vec![];
        let mut used: Vec<&'static str> = vec![];
        let mut used_named: Vec<&'static str> = vec![];
        let mut tries = 0;
        while branches.len() < k && tries < 3 * k {
            tries += 1;
            // nullable unions are the common case
            let cand = if branches.is_empty() && self.c.chance(1, 3) {
                SNode::prim(SType::Null)
            } else {
                self.node(depth + 1, enclosing, opt_ctx + usize::from(!branches.is_empty()), false)
            };
            let b = if let SType::Union(mut bs) = cand.ty {
                // cannot nest: take its first branch instead (deterministic repair, not rejection)
                let first = bs.remove(0);
                for dropped in &bs {
                    self.unregister(dropped);
                }
                first
            } else {
                cand
            };
            let bk = b.kind();
            // kind of a named branch (following references)
            let named_kind: Option<&'static str> = match &b.ty {
                SType::Record(..) => Some("record"),
                SType::Enum(..) => Some("enum"),
                SType::Fixed(..) => Some("fixed"),
                SType::Ref(full) => self.closed.iter().find(|(n, _)| n == full).map(|(_, k)| *k).or(Some("record")),
                _ => None,
            };
            if self.cfg.single_named_per_union {
                // a map value is also matched against record branches (JSON objects): keep them apart
                let nk2 = if bk == "map" { Some("record") } else { named_kind };
                if let Some(nk) = nk2 {
                    if used_named.contains(&nk) {
                        self.unregister(&b);
                        continue;
                    }
                    used_named.push(nk);
                }
            }
            let dup = match &b.ty {
                SType::Ref(full) => branches.iter().any(|x| {
                    x.ty == b.ty || x.named().map(|n| n.fullname()).as_deref() == Some(full.as_str())
                }),
                _ if is_unnamed(bk) => used.contains(&bk),
                _ => false,
            };
            if dup {
                self.unregister(&b);
                continue;
            }
            if is_unnamed(bk) {
                used.push(bk);
            }
            branches.push(b);
        }
        if branches.is_empty() {
            branches.push(SNode::prim(SType::Null));
        }
        SNode::prim(SType::Union(branches))
    }

    fn unregister(&mut self, dropped: &SNode) {
        let mut env = Env::new();
        collect_env(dropped, &mut env);
        self.closed.retain(|(n, _)| !env.contains_key(n));
    }
}

fn is_unnamed(kind: &str) -> bool {
    !matches!(kind, "record" | "enum" | "fixed" | "ref")
}

pub fn max_prec_for_len(len: usize) -> usize {
    // floor(log10(2^(8*len-1) - 1))
    let bits = 8 * len - 1;
    let v: num_bigint::BigInt = (num_bigint::BigInt::from(1) << bits) - 1;
    v.to_string().len() - 1
}

/// Post-pass: give some record fields a default (value generated for the field's
/// schema, rendered per the spec's JSON default encoding; unions: first branch).
fn add_defaults(root: &mut SNode, c: &mut Choices) {
    let env = env_of(root);
    let md = min_depths(&env);
    fn walk(n: &mut SNode, env: &Env, md: &std::collections::BTreeMap<String, usize>, c: &mut Choices, defined: &mut Vec<String>) {
        match &mut n.ty {
            SType::Array(i) | SType::Map(i) => walk(i, env, md, c, defined),
            SType::Union(bs) => bs.iter_mut().for_each(|b| walk(b, env, md, c, defined)),
            SType::Record(named, fields) => {
                let me = named.fullname();
                for f in fields.iter_mut() {
                    walk(&mut f.node, env, md, c, defined);
                    if c.chance(1, 3) && refs_all_defined_in(&f.node, defined, env, &mut vec![]) && !string_default_ambiguous(&f.node, env, 0) {
                        let v = vgen::gen_value_cfg(c, &f.node, env, md, &vgen::VgenCfg::for_defaults());
                        if let Some(j) = vgen::default_json(&f.node, &v, env) {
                            f.default = Some(j);
                        }
                    }
                }
                defined.push(me);
            }
            SType::Enum(named, ..) | SType::Fixed(named, _) => defined.push(named.fullname()),
            _ => {}
        }
    }
    let mut defined = vec![];
    walk(root, &env, &md, c, &mut defined);
}

/// The library resolves a default against the names parsed *so far*; a default
/// for a type that (transitively) references a record still being defined cannot be
/// checked by it, so defaults are only attached where every reference reachable from
/// the field's type is already complete.
fn refs_all_defined_in(n: &SNode, defined: &[String], env: &Env, seen: &mut Vec<String>) -> bool {
    match &n.ty {
        SType::Ref(full) => {
            if !defined.contains(full) {
                return false;
            }
            if seen.contains(full) {
                return true;
            }
            seen.push(full.clone());
            match env.get(full) {
                Some(def) => match &def.ty {
                    SType::Record(_, fields) => fields.iter().all(|f| refs_all_defined_in(&f.node, defined, env, seen)),
                    _ => true,
                },
                None => false,
            }
        }
        SType::Array(i) | SType::Map(i) => refs_all_defined_in(i, defined, env, seen),
        SType::Union(bs) => bs.iter().all(|b| refs_all_defined_in(b, defined, env, seen)),
        SType::Record(_, fields) => fields.iter().all(|f| refs_all_defined_in(&f.node, defined, env, seen)),
        _ => true,
    }
}

/// A union whose first branch takes a JSON *string* default (enum, bytes, fixed, ...) and that
/// also has a uuid-on-string branch: the library resolves a string default against the string
/// branch first and rejects it as "not a uuid" (known finding, probed in C11). Such defaults are
/// not generated.
fn string_default_ambiguous(n: &SNode, env: &Env, depth: usize) -> bool {
    if depth > 8 {
        return false;
    }
    let n = deref(n, env);
    match &n.ty {
        SType::Union(bs) => {
            let first_stringy = bs.first().map_or(false, |b| {
                let b = deref(b, env);
                matches!(b.ty, SType::Enum(..) | SType::Bytes | SType::Fixed(..))
            });
            let has_uuid_string = bs.iter().any(|b| matches!((&b.ty, &b.logical), (SType::String, Some(Logical::Uuid))));
            (first_stringy && has_uuid_string) || bs.first().map_or(false, |b| string_default_ambiguous(b, env, depth + 1))
        }
        SType::Array(i) | SType::Map(i) => string_default_ambiguous(i, env, depth + 1),
        SType::Record(_, fields) => fields.iter().any(|f| string_default_ambiguous(&f.node, env, depth + 1)),
        _ => false,
    }
}
