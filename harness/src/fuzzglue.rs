//! Entry points for the coverage-guided (libFuzzer) targets in /verif/fuzz and for replaying
//! their artefacts through the deterministic CLI (campaign "fuzz_bytes": one choice per byte).
//!
//! Every target puts the semantic oracle inside: the functions return the same `Fail`
//! values as the generated campaigns; failures whose key is a listed known finding are
//! tolerated in the target (otherwise the campaign would rediscover one crash forever).

use crate::choices::Choices;
use crate::props::{c05, c06, c11};
use crate::runner::{key_matches, load_known, CaseLog, CaseResult, Fail};
use crate::specparse::subject_from_text;
use apache_avro::reader::datum::GenericDatumReader;
use apache_avro::writer::datum::GenericDatumWriter;
use std::sync::OnceLock;

pub const FUZZ_LIMIT: usize = 1 << 20;

/// Once per process: allocation limit, warm-up of lazily initialised statics.
pub fn init() {
    static ONCE: OnceLock<()> = OnceLock::new();
    ONCE.get_or_init(|| {
        // library panics must unwind into guard() instead of aborting the fuzzer
        crate::runner::install_panic_hook();
        // (in a C05 child replaying an artefact the limit is the child's)
        let got = apache_avro::util::max_allocation_bytes(FUZZ_LIMIT);
        c05::set_limit(got);
        for t in c06::small_schemas() {
            let _ = apache_avro::Schema::parse_str(t);
        }
    });
}

fn known_keys() -> &'static Vec<String> {
    static K: OnceLock<Vec<String>> = OnceLock::new();
    K.get_or_init(|| {
        let mut v = vec![];
        for p in ["C05", "C06", "C11", "C10", "C12"] {
            for k in load_known(p) {
                if k.status == "known" {
                    v.push(k.key);
                }
            }
        }
        v
    })
}

pub fn tolerated(f: &Fail) -> bool {
    known_keys().iter().any(|k| key_matches(k, &f.key))
}

pub fn all_bytes(c: &mut Choices) -> Vec<u8> {
    let mut out = vec![];
    while !c.exhausted() {
        out.push(c.raw() as u8);
    }
    out
}

/// byte 0 selects one of the small schemas, the rest is the datum: C05's oracle
/// (no panic, bounded work and allocation) over every datum-level entry point.
pub fn datum_c05(data: &[u8], log: &mut CaseLog) -> CaseResult {
    init();
    if data.is_empty() {
        return Ok(());
    }
    let schemas = c06::small_schemas();
    let text = schemas[data[0] as usize % schemas.len()];
    let sub = subject_from_text(text).map_err(|e| Fail::new("HARNESS/small-schema", e))?;
    c05::check_datum(&sub, &data[1..], log)
}

/// byte 0 selects one of the small schemas, the rest is the datum: C06's oracle (whatever
/// decodes conforms, re-encodes to a fixpoint; strict prefixes err; the decoders agree).
pub fn datum_c06(data: &[u8], log: &mut CaseLog) -> CaseResult {
    init();
    if data.is_empty() {
        return Ok(());
    }
    let schemas = c06::small_schemas();
    let text = schemas[data[0] as usize % schemas.len()];
    let input = &data[1..];
    let sub = subject_from_text(text).map_err(|e| Fail::new("HARNESS/small-schema", e))?;
    let reader = GenericDatumReader::builder(&sub.schema).build().map_err(|e| Fail::new("C06/reader-build", format!("{e}")))?;
    let writer = GenericDatumWriter::builder(&sub.schema).build().map_err(|e| Fail::new("C06/writer-build", format!("{e}")))?;
    let kind = match crate::refbin::decode_any_sizes(&sub.node, &sub.env, input) {
        Err(crate::refbin::DecErr::Eof) => c06::Kind::Prefix,
        _ => c06::Kind::Random,
    };
    c06::check_input(&sub, &reader, &writer, input, kind, log)
}

/// the input as schema text: C11's totality / operation-totality / well-formedness oracle
pub fn schema_text(data: &[u8], log: &mut CaseLog) -> CaseResult {
    init();
    let text = String::from_utf8_lossy(data);
    c11::check_text(&text, log).map(|_| ())
}

/// the input as a container file: C05's oracle over both container readers
pub fn container(data: &[u8], log: &mut CaseLog) -> CaseResult {
    init();
    c05::check_container_bytes(data, log)
}

pub fn case_datum_c05(c: &mut Choices, log: &mut CaseLog) -> CaseResult {
    let b = all_bytes(c);
    log.nontrivial = b.len() > 1;
    datum_c05(&b, log)
}
pub fn case_datum_c06(c: &mut Choices, log: &mut CaseLog) -> CaseResult {
    let b = all_bytes(c);
    log.nontrivial = b.len() > 1;
    datum_c06(&b, log)
}
pub fn case_schema_text(c: &mut Choices, log: &mut CaseLog) -> CaseResult {
    let b = all_bytes(c);
    log.nontrivial = b.len() > 1;
    schema_text(&b, log)
}
pub fn case_container(c: &mut Choices, log: &mut CaseLog) -> CaseResult {
    let b = all_bytes(c);
    log.nontrivial = b.len() > 4;
    container(&b, log)
}

/// Used by the targets: Ok, tolerated known finding, or a message to crash with.
pub fn verdict(r: CaseResult) -> Option<String> {
    match r {
        Ok(()) => None,
        Err(f) if tolerated(&f) => None,
        Err(f) => Some(format!("VERIF-FUZZ-FAIL key={} msg={}", f.key, f.msg)),
    }
}

// ------------------------------------------------------------------ seed corpora

/// one selector byte per small schema followed by a few plausible encodings
pub fn seeds_datum() -> Vec<Vec<u8>> {
    let n = c06::small_schemas().len();
    let mut out = vec![];
    for i in 0..n {
        out.push(vec![i as u8]);
        out.push(vec![i as u8, 0]);
        out.push(vec![i as u8, 2, 0x61]);
        out.push(vec![i as u8, 4, 2, 4, 0]);
        out.push(vec![i as u8, 3, 4, 2, 4, 0]);
        out.push(vec![i as u8, 0x48, 0x30, 0x30, 0x30, 0x30, 0x30, 0x30, 0x30, 0x30, 0x2d, 0x30, 0x30, 0x30, 0x30, 0x2d, 0x30, 0x30, 0x30, 0x30, 0x2d, 0x30, 0x30, 0x30, 0x30, 0x2d, 0x30, 0x30, 0x30, 0x30, 0x30, 0x30, 0x30, 0x30, 0x30, 0x30, 0x30, 0x30]);
    }
    out
}

/// small valid container files, one per codec, written by the library
pub fn seeds_container() -> Vec<Vec<u8>> {
    use apache_avro::types::Value;
    use apache_avro::{Codec, Schema, Writer};
    let mut out = vec![];
    let schemas = [
        (r#""int""#, vec![Value::Int(1), Value::Int(-70000)]),
        (r#""string""#, vec![Value::String("hello".into()), Value::String(String::new())]),
        (r#"{"type":"array","items":"null"}"#, vec![Value::Array(vec![Value::Null; 3])]),
        (r#"{"type":"record","name":"R","fields":[{"name":"a","type":["null","R"]},{"name":"m","type":{"type":"map","values":"bytes"}}]}"#, vec![]),
    ];
    let codecs = [
        Codec::Null,
        Codec::Deflate(Default::default()),
        Codec::Snappy,
        Codec::Zstandard(Default::default()),
        Codec::Bzip2(apache_avro::Bzip2Settings::new(1)),
        Codec::Xz(apache_avro::XzSettings::new(0)),
    ];
    for (text, values) in &schemas {
        let Ok(schema) = Schema::parse_str(text) else { continue };
        for codec in codecs {
            let Ok(mut w) = Writer::builder().schema(&schema).writer(Vec::new()).codec(codec).block_size(8).build() else { continue };
            for v in values {
                let _ = w.append_value_ref(v);
            }
            if let Ok(bytes) = w.into_inner() {
                out.push(bytes);
            }
        }
    }
    out
}

pub fn seeds_schema() -> Vec<Vec<u8>> {
    let mut out: Vec<Vec<u8>> = c06::small_schemas().iter().map(|s| s.as_bytes().to_vec()).collect();
    out.push(br#"{"type":"record","name":"a.b.W","namespace":"x","aliases":["x.Y"],"doc":"d","fields":[{"name":"f","aliases":["g"],"order":"descending","type":{"type":"enum","name":"E","symbols":["A","B"],"default":"A"},"default":"A"},{"name":"u","type":["null",{"type":"map","values":{"type":"array","items":"W"}}],"default":null},{"name":"d","type":{"type":"fixed","name":"D","size":12,"logicalType":"duration"}},{"name":"t","type":{"type":"long","logicalType":"local-timestamp-nanos"}},{"name":"x","type":{"type":"bytes","logicalType":"decimal","precision":9,"scale":2},"default":"\u0001"}]}"#.to_vec());
    out
}
