//! Harness-owned JSON: ordered objects, numbers kept as text, strict parser
//! (rejects duplicate keys, reports them) and a renderer. Shares no code with
//! serde_json so that it can judge what the library emits.

use std::fmt::Write as _;

#[derive(Clone, Debug, PartialEq)]
pub enum Js {
    Null,
    Bool(bool),
    /// number, textual form as written
    Num(String),
    Str(String),
    Arr(Vec<Js>),
    Obj(Vec<(String, Js)>),
}

impl Js {
    pub fn str(s: &str) -> Js {
        Js::Str(s.to_string())
    }
    pub fn int(i: i128) -> Js {
        Js::Num(i.to_string())
    }
    pub fn obj(items: Vec<(&str, Js)>) -> Js {
        Js::Obj(items.into_iter().map(|(k, v)| (k.to_string(), v)).collect())
    }
    pub fn get(&self, key: &str) -> Option<&Js> {
        match self {
            Js::Obj(items) => items.iter().find(|(k, _)| k == key).map(|(_, v)| v),
            _ => None,
        }
    }
    pub fn as_str(&self) -> Option<&str> {
        match self {
            Js::Str(s) => Some(s),
            _ => None,
        }
    }
    pub fn as_arr(&self) -> Option<&[Js]> {
        match self {
            Js::Arr(a) => Some(a),
            _ => None,
        }
    }
    pub fn as_obj(&self) -> Option<&[(String, Js)]> {
        match self {
            Js::Obj(a) => Some(a),
            _ => None,
        }
    }
    pub fn as_i128(&self) -> Option<i128> {
        match self {
            Js::Num(s) => s.parse::<i128>().ok(),
            _ => None,
        }
    }
    pub fn as_f64(&self) -> Option<f64> {
        match self {
            Js::Num(s) => s.parse::<f64>().ok(),
            _ => None,
        }
    }
    pub fn render(&self) -> String {
        let mut out = String::new();
        self.render_into(&mut out);
        out
    }
    pub fn render_into(&self, out: &mut String) {
        match self {
            Js::Null => out.push_str("null"),
            Js::Bool(b) => out.push_str(if *b { "true" } else { "false" }),
            Js::Num(n) => out.push_str(n),
            Js::Str(s) => render_str(s, out),
            Js::Arr(a) => {
                out.push('[');
                for (i, v) in a.iter().enumerate() {
                    if i > 0 {
                        out.push(',');
                    }
                    v.render_into(out);
                }
                out.push(']');
            }
            Js::Obj(o) => {
                out.push('{');
                for (i, (k, v)) in o.iter().enumerate() {
                    if i > 0 {
                        out.push(',');
                    }
                    render_str(k, out);
                    out.push(':');
                    v.render_into(out);
                }
                out.push('}');
            }
        }
    }
    /// Render with whitespace chosen by `ws(i)` (i = running token index) to
    /// exercise the parser's whitespace handling.
    pub fn render_ws(&self, ws: &mut dyn FnMut() -> &'static str) -> String {
        let mut out = String::new();
        self.render_ws_into(&mut out, ws);
        out
    }
    fn render_ws_into(&self, out: &mut String, ws: &mut dyn FnMut() -> &'static str) {
        match self {
            Js::Arr(a) => {
                out.push('[');
                out.push_str(ws());
                for (i, v) in a.iter().enumerate() {
                    if i > 0 {
                        out.push(',');
                        out.push_str(ws());
                    }
                    v.render_ws_into(out, ws);
                }
                out.push_str(ws());
                out.push(']');
            }
            Js::Obj(o) => {
                out.push('{');
                out.push_str(ws());
                for (i, (k, v)) in o.iter().enumerate() {
                    if i > 0 {
                        out.push(',');
                        out.push_str(ws());
                    }
                    render_str(k, out);
                    out.push_str(ws());
                    out.push(':');
                    out.push_str(ws());
                    v.render_ws_into(out, ws);
                }
                out.push_str(ws());
                out.push('}');
            }
            other => other.render_into(out),
        }
    }
}

pub fn render_str(s: &str, out: &mut String) {
    out.push('"');
    for c in s.chars() {
        match c {
            '"' => out.push_str("\\\""),
            '\\' => out.push_str("\\\\"),
            '\n' => out.push_str("\\n"),
            '\r' => out.push_str("\\r"),
            '\t' => out.push_str("\\t"),
            '\u{08}' => out.push_str("\\b"),
            '\u{0c}' => out.push_str("\\f"),
            c if (c as u32) < 0x20 => {
                let _ = write!(out, "\\u{:04x}", c as u32);
            }
            c => out.push(c),
        }
    }
    out.push('"');
}

#[derive(Debug, Clone, PartialEq)]
pub struct JsError {
    pub pos: usize,
    pub msg: String,
    /// true when the only problem is a duplicate object key
    pub duplicate_key: Option<String>,
}

pub struct Parser<'a> {
    s: &'a [u8],
    pos: usize,
    depth: usize,
    pub allow_duplicates: bool,
    pub duplicates: Vec<String>,
}

/// Strict parse: duplicate keys are an error.
pub fn parse_strict(text: &str) -> Result<Js, JsError> {
    let mut p = Parser {
        s: text.as_bytes(),
        pos: 0,
        depth: 0,
        allow_duplicates: false,
        duplicates: vec![],
    };
    p.parse_document()
}

/// Lenient about duplicate keys (keeps all of them, in order); returns the
/// duplicates seen.
pub fn parse_lenient(text: &str) -> Result<(Js, Vec<String>), JsError> {
    let mut p = Parser {
        s: text.as_bytes(),
        pos: 0,
        depth: 0,
        allow_duplicates: true,
        duplicates: vec![],
    };
    let v = p.parse_document()?;
    Ok((v, p.duplicates))
}

impl<'a> Parser<'a> {
    fn err<T>(&self, msg: &str) -> Result<T, JsError> {
        Err(JsError {
            pos: self.pos,
            msg: msg.to_string(),
            duplicate_key: None,
        })
    }
    fn ws(&mut self) {
        while self.pos < self.s.len() && matches!(self.s[self.pos], b' ' | b'\t' | b'\n' | b'\r') {
            self.pos += 1;
        }
    }
    fn parse_document(&mut self) -> Result<Js, JsError> {
        self.ws();
        let v = self.value()?;
        self.ws();
        if self.pos != self.s.len() {
            return self.err("trailing characters");
        }
        Ok(v)
    }
    fn value(&mut self) -> Result<Js, JsError> {
        if self.depth > 200 {
            return self.err("too deep");
        }
        if self.pos >= self.s.len() {
            return self.err("eof");
        }
        match self.s[self.pos] {
            b'n' => self.lit("null", Js::Null),
            b't' => self.lit("true", Js::Bool(true)),
            b'f' => self.lit("false", Js::Bool(false)),
            b'"' => Ok(Js::Str(self.string()?)),
            b'[' => {
                self.pos += 1;
                self.depth += 1;
                let mut items = vec![];
                self.ws();
                if self.peek() == Some(b']') {
                    self.pos += 1;
                    self.depth -= 1;
                    return Ok(Js::Arr(items));
                }
                loop {
                    self.ws();
                    items.push(self.value()?);
                    self.ws();
                    match self.peek() {
                        Some(b',') => self.pos += 1,
                        Some(b']') => {
                            self.pos += 1;
                            break;
                        }
                        _ => return self.err("expected , or ]"),
                    }
                }
                self.depth -= 1;
                Ok(Js::Arr(items))
            }
            b'{' => {
                self.pos += 1;
                self.depth += 1;
                let mut items: Vec<(String, Js)> = vec![];
                self.ws();
                if self.peek() == Some(b'}') {
                    self.pos += 1;
                    self.depth -= 1;
                    return Ok(Js::Obj(items));
                }
                loop {
                    self.ws();
                    if self.peek() != Some(b'"') {
                        return self.err("expected key");
                    }
                    let k = self.string()?;
                    self.ws();
                    if self.peek() != Some(b':') {
                        return self.err("expected :");
                    }
                    self.pos += 1;
                    self.ws();
                    let v = self.value()?;
                    if items.iter().any(|(k2, _)| *k2 == k) {
                        if self.allow_duplicates {
                            self.duplicates.push(k.clone());
                        } else {
                            return Err(JsError {
                                pos: self.pos,
                                msg: format!("duplicate key {k:?}"),
                                duplicate_key: Some(k),
                            });
                        }
                    }
                    items.push((k, v));
                    self.ws();
                    match self.peek() {
                        Some(b',') => self.pos += 1,
                        Some(b'}') => {
                            self.pos += 1;
                            break;
                        }
                        _ => return self.err("expected , or }"),
                    }
                }
                self.depth -= 1;
                Ok(Js::Obj(items))
            }
            b'-' | b'0'..=b'9' => self.number(),
            _ => self.err("unexpected character"),
        }
    }
    fn peek(&self) -> Option<u8> {
        self.s.get(self.pos).copied()
    }
    fn lit(&mut self, word: &str, v: Js) -> Result<Js, JsError> {
        if self.s[self.pos..].starts_with(word.as_bytes()) {
            self.pos += word.len();
            Ok(v)
        } else {
            self.err("bad literal")
        }
    }
    fn number(&mut self) -> Result<Js, JsError> {
        let start = self.pos;
        if self.peek() == Some(b'-') {
            self.pos += 1;
        }
        match self.peek() {
            Some(b'0') => self.pos += 1,
            Some(b'1'..=b'9') => {
                while matches!(self.peek(), Some(b'0'..=b'9')) {
                    self.pos += 1;
                }
            }
            _ => return self.err("bad number"),
        }
        if self.peek() == Some(b'.') {
            self.pos += 1;
            if !matches!(self.peek(), Some(b'0'..=b'9')) {
                return self.err("bad fraction");
            }
            while matches!(self.peek(), Some(b'0'..=b'9')) {
                self.pos += 1;
            }
        }
        if matches!(self.peek(), Some(b'e' | b'E')) {
            self.pos += 1;
            if matches!(self.peek(), Some(b'+' | b'-')) {
                self.pos += 1;
            }
            if !matches!(self.peek(), Some(b'0'..=b'9')) {
                return self.err("bad exponent");
            }
            while matches!(self.peek(), Some(b'0'..=b'9')) {
                self.pos += 1;
            }
        }
        Ok(Js::Num(
            std::str::from_utf8(&self.s[start..self.pos]).unwrap().to_string(),
        ))
    }
    fn hex4(&mut self) -> Result<u32, JsError> {
        if self.pos + 4 > self.s.len() {
            return self.err("short \\u");
        }
        let h = std::str::from_utf8(&self.s[self.pos..self.pos + 4]).map_err(|_| JsError {
            pos: self.pos,
            msg: "bad \\u".into(),
            duplicate_key: None,
        })?;
        let v = u32::from_str_radix(h, 16).map_err(|_| JsError {
            pos: self.pos,
            msg: "bad \\u".into(),
            duplicate_key: None,
        })?;
        self.pos += 4;
        Ok(v)
    }
    fn string(&mut self) -> Result<String, JsError> {
        self.pos += 1; // opening quote
        let mut out: Vec<u8> = vec![];
        loop {
            let Some(c) = self.peek() else {
                return self.err("unterminated string");
            };
            self.pos += 1;
            match c {
                b'"' => break,
                b'\\' => {
                    let Some(e) = self.peek() else {
                        return self.err("bad escape");
                    };
                    self.pos += 1;
                    match e {
                        b'"' => out.push(b'"'),
                        b'\\' => out.push(b'\\'),
                        b'/' => out.push(b'/'),
                        b'b' => out.push(8),
                        b'f' => out.push(12),
                        b'n' => out.push(b'\n'),
                        b'r' => out.push(b'\r'),
                        b't' => out.push(b'\t'),
                        b'u' => {
                            let mut cp = self.hex4()?;
                            if (0xD800..0xDC00).contains(&cp) {
                                if self.s[self.pos..].starts_with(b"\\u") {
                                    self.pos += 2;
                                    let lo = self.hex4()?;
                                    if !(0xDC00..0xE000).contains(&lo) {
                                        return self.err("bad surrogate");
                                    }
                                    cp = 0x10000 + ((cp - 0xD800) << 10) + (lo - 0xDC00);
                                } else {
                                    return self.err("lone surrogate");
                                }
                            } else if (0xDC00..0xE000).contains(&cp) {
                                return self.err("lone surrogate");
                            }
                            let ch = char::from_u32(cp).ok_or(JsError {
                                pos: self.pos,
                                msg: "bad code point".into(),
                                duplicate_key: None,
                            })?;
                            let mut b = [0u8; 4];
                            out.extend_from_slice(ch.encode_utf8(&mut b).as_bytes());
                        }
                        _ => return self.err("bad escape"),
                    }
                }
                c if c < 0x20 => return self.err("control character in string"),
                c => out.push(c),
            }
        }
        String::from_utf8(out).map_err(|_| JsError {
            pos: self.pos,
            msg: "invalid utf-8".into(),
            duplicate_key: None,
        })
    }
}

/// Convert to serde_json::Value (for handing defaults etc. to comparisons with the library).
pub fn to_serde(j: &Js) -> serde_json::Value {
    match j {
        Js::Null => serde_json::Value::Null,
        Js::Bool(b) => serde_json::Value::Bool(*b),
        Js::Num(n) => serde_json::from_str(n).unwrap_or(serde_json::Value::Null),
        Js::Str(s) => serde_json::Value::String(s.clone()),
        Js::Arr(a) => serde_json::Value::Array(a.iter().map(to_serde).collect()),
        Js::Obj(o) => serde_json::Value::Object(o.iter().map(|(k, v)| (k.clone(), to_serde(v))).collect()),
    }
}

pub fn from_serde(v: &serde_json::Value) -> Js {
    match v {
        serde_json::Value::Null => Js::Null,
        serde_json::Value::Bool(b) => Js::Bool(*b),
        serde_json::Value::Number(n) => Js::Num(n.to_string()),
        serde_json::Value::String(s) => Js::Str(s.clone()),
        serde_json::Value::Array(a) => Js::Arr(a.iter().map(from_serde).collect()),
        serde_json::Value::Object(o) => Js::Obj(o.iter().map(|(k, v)| (k.clone(), from_serde(v))).collect()),
    }
}

pub fn hex(bytes: &[u8]) -> String {
    let mut s = String::with_capacity(bytes.len() * 2);
    for b in bytes {
        let _ = write!(s, "{b:02x}");
    }
    s
}

pub fn unhex(s: &str) -> Option<Vec<u8>> {
    if s.len() % 2 != 0 {
        return None;
    }
    (0..s.len() / 2)
        .map(|i| u8::from_str_radix(&s[2 * i..2 * i + 2], 16).ok())
        .collect()
}
