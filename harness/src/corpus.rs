//! A corpus of Rust types covering the serde data model, each deriving Serialize,
//! Deserialize and AvroSchema, with a value generator and bitwise equality.
//! Shared by C16 (serde path vs generic path) and C17 (derived schemas).

use crate::choices::Choices;
use crate::vgen::{gen_int, gen_long, gen_string, VgenCfg, F32_EDGES, F64_EDGES};
use apache_avro::AvroSchema;
use serde::{Deserialize, Serialize};
use std::collections::HashMap;

pub trait Corpus: Serialize + serde::de::DeserializeOwned + AvroSchema + std::fmt::Debug + Sized {
    fn arb(c: &mut Choices) -> Self;
    /// equality with floats compared by bit pattern
    fn same(&self, other: &Self) -> bool;
    /// does some part of the value exercise block logic / non-first variants / defaults
    fn interesting(&self) -> bool {
        true
    }
}

fn f32b(c: &mut Choices) -> f32 {
    if c.bool() { f32::from_bits(F32_EDGES[c.pick(F32_EDGES.len())]) } else { f32::from_bits(c.raw() as u32) }
}
fn f64b(c: &mut Choices) -> f64 {
    if c.bool() { f64::from_bits(F64_EDGES[c.pick(F64_EDGES.len())]) } else { f64::from_bits(c.raw()) }
}
fn string(c: &mut Choices) -> String {
    gen_string(c, &VgenCfg::small())
}
fn vecn<T>(c: &mut Choices, mut f: impl FnMut(&mut Choices) -> T) -> Vec<T> {
    let n = match c.weighted(&[2, 3, 3, 1]) {
        0 => 0,
        1 => 1,
        2 => 2 + c.pick(4),
        _ => 40 + c.pick(60),
    };
    (0..n).map(|_| f(c)).collect()
}
fn mapn<T>(c: &mut Choices, mut f: impl FnMut(&mut Choices) -> T) -> HashMap<String, T> {
    let n = c.weighted(&[2, 3, 3, 2]);
    (0..n).map(|i| (format!("{}{i}", ["k", "", "\u{e9}"][c.pick(3)]), f(c))).collect()
}
fn opt<T>(c: &mut Choices, f: impl FnOnce(&mut Choices) -> T) -> Option<T> {
    if c.bool() { Some(f(c)) } else { None }
}

macro_rules! same_by_debug {
    () => {
        fn same(&self, other: &Self) -> bool {
            // Debug of f32/f64 distinguishes -0.0 and prints NaN alike; types with floats override
            format!("{:?}", self) == format!("{:?}", other)
        }
    };
}

// ------------------------------------------------------------------ structs

#[derive(Debug, Clone, PartialEq, Serialize, Deserialize, AvroSchema)]
pub struct Inner {
    pub x: i32,
    pub y: String,
}
impl Corpus for Inner {
    fn arb(c: &mut Choices) -> Self {
        Inner { x: gen_int(c), y: string(c) }
    }
    same_by_debug!();
}

#[derive(Debug, Clone, Serialize, Deserialize, AvroSchema)]
pub struct Scalars {
    pub b: bool,
    pub i8_: i8,
    pub i16_: i16,
    pub i32_: i32,
    pub i64_: i64,
    pub u8_: u8,
    pub u16_: u16,
    pub u32_: u32,
    pub f32_: f32,
    pub f64_: f64,
    pub s: String,
}
impl Corpus for Scalars {
    fn arb(c: &mut Choices) -> Self {
        Scalars {
            b: c.bool(),
            i8_: [0, 1, -1, i8::MAX, i8::MIN][c.pick(5)],
            i16_: [0, 1, -1, 64, -65, i16::MAX, i16::MIN][c.pick(7)],
            i32_: gen_int(c),
            i64_: gen_long(c),
            u8_: [0, 1, 127, 128, 255][c.pick(5)],
            u16_: [0, 1, 255, 256, u16::MAX][c.pick(5)],
            u32_: [0, 1, i32::MAX as u32, i32::MAX as u32 + 1, u32::MAX][c.pick(5)],
            f32_: f32b(c),
            f64_: f64b(c),
            s: string(c),
        }
    }
    fn same(&self, o: &Self) -> bool {
        self.b == o.b && self.i8_ == o.i8_ && self.i16_ == o.i16_ && self.i32_ == o.i32_ && self.i64_ == o.i64_ && self.u8_ == o.u8_ && self.u16_ == o.u16_ && self.u32_ == o.u32_
            && self.f32_.to_bits() == o.f32_.to_bits() && self.f64_.to_bits() == o.f64_.to_bits() && self.s == o.s
    }
}

#[derive(Debug, Clone, Serialize, Deserialize, AvroSchema)]
pub struct CharHolder {
    pub c: char,
}
impl Corpus for CharHolder {
    fn arb(c: &mut Choices) -> Self {
        CharHolder { c: ['a', '\0', '\u{e9}', '\u{4e2d}', '\u{1F600}', ' '][c.pick(6)] }
    }
    same_by_debug!();
}

#[derive(Debug, Clone, Serialize, Deserialize, AvroSchema)]
pub struct BigInts {
    pub a: u64,
    pub b: i128,
    pub c: u128,
}
impl Corpus for BigInts {
    fn arb(c: &mut Choices) -> Self {
        BigInts {
            a: [0, 1, u64::MAX, i64::MAX as u64 + 1][c.pick(4)] ^ if c.bool() { c.raw() } else { 0 },
            b: [0, -1, i128::MAX, i128::MIN, 1 << 64][c.pick(5)],
            c: [0, 1, u128::MAX, 1 << 127][c.pick(4)],
        }
    }
    same_by_debug!();
}

#[derive(Debug, Clone, Serialize, Deserialize, AvroSchema)]
pub struct BytesHolder {
    #[avro(with)]
    #[serde(with = "apache_avro::serde::bytes")]
    pub b: Vec<u8>,
    #[avro(with = apache_avro::serde::fixed::get_schema_in_ctxt::<4>)]
    #[serde(with = "apache_avro::serde::fixed")]
    pub f: [u8; 4],
    #[avro(with)]
    #[serde(with = "apache_avro::serde::bytes_opt")]
    pub ob: Option<Vec<u8>>,
}
impl Corpus for BytesHolder {
    fn arb(c: &mut Choices) -> Self {
        let n = c.pick(70);
        let b = c.bytes(n);
        let f4 = c.bytes(4);
        BytesHolder { b, f: [f4[0], f4[1], f4[2], f4[3]], ob: opt(c, |c| c.bytes(3)) }
    }
    same_by_debug!();
}

#[derive(Debug, Clone, Serialize, Deserialize, AvroSchema)]
pub struct Opts {
    pub a: Option<i32>,
    pub b: Option<String>,
    pub c: Option<Inner>,
    pub d: Option<Vec<i64>>,
}
impl Corpus for Opts {
    fn arb(c: &mut Choices) -> Self {
        Opts { a: opt(c, gen_int), b: opt(c, string), c: opt(c, Inner::arb), d: opt(c, |c| vecn(c, gen_long)) }
    }
    same_by_debug!();
}

#[derive(Debug, Clone, Serialize, Deserialize, AvroSchema)]
pub struct Seqs {
    pub a: Vec<i32>,
    pub b: Vec<String>,
    pub c: Vec<Inner>,
    pub d: Vec<Option<i64>>,
    pub e: Vec<Vec<i32>>,
    pub f: Vec<bool>,
}
impl Corpus for Seqs {
    fn arb(c: &mut Choices) -> Self {
        Seqs {
            a: vecn(c, gen_int),
            b: vecn(c, string),
            c: vecn(c, Inner::arb),
            d: vecn(c, |c| opt(c, gen_long)),
            e: vecn(c, |c| {
                let n = c.pick(4);
                (0..n).map(|_| gen_int(c)).collect()
            }),
            f: vecn(c, |c| c.bool()),
        }
    }
    same_by_debug!();
    fn interesting(&self) -> bool {
        !self.a.is_empty() || !self.c.is_empty()
    }
}

#[derive(Debug, Clone, Serialize, Deserialize, AvroSchema)]
pub struct Maps {
    pub a: HashMap<String, i32>,
    pub b: HashMap<String, Inner>,
    pub c: HashMap<String, Vec<String>>,
    pub d: HashMap<String, Option<f64>>,
}
impl Corpus for Maps {
    fn arb(c: &mut Choices) -> Self {
        Maps { a: mapn(c, gen_int), b: mapn(c, Inner::arb), c: mapn(c, |c| vecn(c, string)), d: mapn(c, |c| opt(c, |c| [0.0, 1.5, -2.25][c.pick(3)])) }
    }
    fn same(&self, o: &Self) -> bool {
        // HashMap Debug order varies
        self.a == o.a && self.b.len() == o.b.len() && self.b.iter().all(|(k, v)| o.b.get(k).map_or(false, |w| v.same(w))) && self.c == o.c && self.d == o.d
    }
    fn interesting(&self) -> bool {
        !self.a.is_empty() || !self.b.is_empty()
    }
}

#[derive(Debug, Clone, Serialize, Deserialize, AvroSchema)]
pub struct UnitStruct;
impl Corpus for UnitStruct {
    fn arb(_: &mut Choices) -> Self {
        UnitStruct
    }
    same_by_debug!();
    fn interesting(&self) -> bool {
        false
    }
}

#[derive(Debug, Clone, Serialize, Deserialize, AvroSchema)]
pub struct Newtype(pub i64);
impl Corpus for Newtype {
    fn arb(c: &mut Choices) -> Self {
        Newtype(gen_long(c))
    }
    same_by_debug!();
}

#[derive(Debug, Clone, Serialize, Deserialize, AvroSchema)]
pub struct TupleStruct(pub i32, pub String, pub Option<bool>);
impl Corpus for TupleStruct {
    fn arb(c: &mut Choices) -> Self {
        TupleStruct(gen_int(c), string(c), opt(c, |c| c.bool()))
    }
    same_by_debug!();
}

#[derive(Debug, Clone, Serialize, Deserialize, AvroSchema)]
pub struct Arrays {
    #[avro(with = apache_avro::serde::array::get_schema_in_ctxt::<i32>)]
    #[serde(with = "apache_avro::serde::array")]
    pub a: [i32; 3],
    pub tuple_like: [bool; 2],
}
impl Corpus for Arrays {
    fn arb(c: &mut Choices) -> Self {
        Arrays { a: [gen_int(c), gen_int(c), gen_int(c)], tuple_like: [c.bool(), c.bool()] }
    }
    same_by_debug!();
}

#[derive(Debug, Clone, Serialize, Deserialize, AvroSchema)]
#[serde(rename_all = "camelCase")]
#[avro(namespace = "corpus.ns", doc = "renamed fields", alias = "OldRenamed")]
pub struct Renamed {
    pub first_field: i32,
    #[serde(rename = "explicitlyRenamed")]
    pub second_field: String,
    #[serde(alias = "old_third")]
    pub third_field: Option<i64>,
    pub inner_value: Inner,
}
impl Corpus for Renamed {
    fn arb(c: &mut Choices) -> Self {
        Renamed { first_field: gen_int(c), second_field: string(c), third_field: opt(c, gen_long), inner_value: Inner::arb(c) }
    }
    same_by_debug!();
}

fn is_zero(v: &i32) -> bool {
    *v == 0
}

#[derive(Debug, Clone, Serialize, Deserialize, AvroSchema)]
pub struct Skips {
    pub keep: i32,
    #[serde(skip)]
    pub skipped: i32,
    // the two-attribute spelling of skip
    #[serde(skip_serializing, skip_deserializing)]
    pub skipped_both_ways: i32,
    #[serde(skip_serializing_if = "is_zero", default)]
    #[avro(default = "0")]
    pub maybe: i32,
    #[serde(skip_serializing_if = "Option::is_none", default)]
    #[avro(default = "null")]
    pub opt: Option<String>,
    pub last: String,
}
impl Corpus for Skips {
    fn arb(c: &mut Choices) -> Self {
        Skips { keep: gen_int(c), skipped: 0, skipped_both_ways: 0, maybe: if c.bool() { 0 } else { gen_int(c) }, opt: opt(c, string), last: string(c) }
    }
    same_by_debug!();
    fn interesting(&self) -> bool {
        self.maybe == 0 || self.opt.is_none()
    }
}

#[derive(Debug, Clone, Serialize, Deserialize, AvroSchema)]
pub struct FlatInner {
    pub fa: i32,
    pub fb: String,
}
#[derive(Debug, Clone, Serialize, Deserialize, AvroSchema)]
pub struct Flattened {
    pub before: bool,
    #[serde(flatten)]
    pub inner: FlatInner,
    pub after: i64,
}
impl Corpus for Flattened {
    fn arb(c: &mut Choices) -> Self {
        Flattened { before: c.bool(), inner: FlatInner { fa: gen_int(c), fb: string(c) }, after: gen_long(c) }
    }
    same_by_debug!();
}

#[derive(Debug, Clone, Serialize, Deserialize, AvroSchema)]
#[serde(transparent)]
pub struct Transparent {
    pub only: Vec<i32>,
}
impl Corpus for Transparent {
    fn arb(c: &mut Choices) -> Self {
        Transparent { only: vecn(c, gen_int) }
    }
    same_by_debug!();
}

#[derive(Debug, Clone, Serialize, Deserialize, AvroSchema)]
pub struct Recursive {
    pub v: i32,
    pub next: Option<Box<Recursive>>,
    pub children: Vec<Recursive>,
}
impl Corpus for Recursive {
    fn arb(c: &mut Choices) -> Self {
        fn go(c: &mut Choices, depth: usize) -> Recursive {
            Recursive {
                v: gen_int(c),
                next: if depth < 3 && c.bool() { Some(Box::new(go(c, depth + 1))) } else { None },
                children: if depth < 2 { (0..c.pick(3)).map(|_| go(c, depth + 1)).collect() } else { vec![] },
            }
        }
        go(c, 0)
    }
    same_by_debug!();
    fn interesting(&self) -> bool {
        self.next.is_some() || !self.children.is_empty()
    }
}

#[derive(Debug, Clone, PartialEq, Serialize, Deserialize, AvroSchema)]
pub struct Generic<T: apache_avro::AvroSchemaComponent> {
    pub value: T,
    pub list: Vec<T>,
}
impl<T: apache_avro::AvroSchemaComponent> Generic<T> {
    pub fn arb_with(c: &mut Choices, mut f: impl FnMut(&mut Choices) -> T) -> Self {
        let value = f(c);
        Generic { value, list: vecn(c, f) }
    }
}
impl Corpus for Generic<i64> {
    fn arb(c: &mut Choices) -> Self {
        Generic { value: gen_long(c), list: vecn(c, gen_long) }
    }
    same_by_debug!();
}

#[derive(Debug, Clone, Serialize, Deserialize, AvroSchema)]
pub struct WithUuid {
    pub id: uuid::Uuid,
    pub ids: Vec<uuid::Uuid>,
}
impl Corpus for WithUuid {
    fn arb(c: &mut Choices) -> Self {
        let mk = |c: &mut Choices| {
            let b = c.bytes(16);
            let mut a = [0u8; 16];
            a.copy_from_slice(&b);
            uuid::Uuid::from_bytes(a)
        };
        WithUuid { id: mk(c), ids: vecn(c, mk) }
    }
    same_by_debug!();
}

/// For the typed single-object writer's `write_value` (which takes `T: Into<Value>`).
impl From<Inner> for apache_avro::types::Value {
    fn from(i: Inner) -> Self {
        apache_avro::types::Value::Record(vec![("x".into(), apache_avro::types::Value::Int(i.x)), ("y".into(), apache_avro::types::Value::String(i.y))])
    }
}

// ------------------------------------------------------------------ enums

#[derive(Debug, Clone, PartialEq, Serialize, Deserialize, AvroSchema)]
pub enum Plain {
    A,
    B,
    #[serde(rename = "Sea")]
    C,
    D,
}
impl Corpus for Plain {
    fn arb(c: &mut Choices) -> Self {
        [Plain::A, Plain::B, Plain::C, Plain::D][c.pick(4)].clone()
    }
    same_by_debug!();
    fn interesting(&self) -> bool {
        *self != Plain::A
    }
}

#[derive(Debug, Clone, Serialize, Deserialize, AvroSchema)]
pub struct PlainHolder {
    pub e: Plain,
    pub es: Vec<Plain>,
    pub oe: Option<Plain>,
}
impl Corpus for PlainHolder {
    fn arb(c: &mut Choices) -> Self {
        PlainHolder { e: Plain::arb(c), es: vecn(c, Plain::arb), oe: opt(c, Plain::arb) }
    }
    same_by_debug!();
}

#[derive(Debug, Clone, Serialize, Deserialize, AvroSchema)]
#[serde(rename_all = "SCREAMING_SNAKE_CASE")]
pub enum ScreamingPlain {
    FirstOne,
    SecondOne,
}
impl Corpus for ScreamingPlain {
    fn arb(c: &mut Choices) -> Self {
        if c.bool() { ScreamingPlain::FirstOne } else { ScreamingPlain::SecondOne }
    }
    same_by_debug!();
}

#[derive(Debug, Clone, Serialize, Deserialize, AvroSchema)]
#[avro(repr = "union_of_records")]
pub enum UnionOfRecords {
    Unit,
    New(i32),
    Tup(i32, String),
    Struct { x: i64, y: Option<String> },
}
impl Corpus for UnionOfRecords {
    fn arb(c: &mut Choices) -> Self {
        match c.pick(4) {
            0 => UnionOfRecords::Unit,
            1 => UnionOfRecords::New(gen_int(c)),
            2 => UnionOfRecords::Tup(gen_int(c), string(c)),
            _ => UnionOfRecords::Struct { x: gen_long(c), y: opt(c, string) },
        }
    }
    same_by_debug!();
    fn interesting(&self) -> bool {
        !matches!(self, UnionOfRecords::Unit)
    }
}

#[derive(Debug, Clone, Serialize, Deserialize, AvroSchema)]
pub struct UnionHolder {
    pub u: UnionOfRecords,
    pub us: Vec<UnionOfRecords>,
}
impl Corpus for UnionHolder {
    fn arb(c: &mut Choices) -> Self {
        UnionHolder { u: UnionOfRecords::arb(c), us: vecn(c, UnionOfRecords::arb) }
    }
    same_by_debug!();
}

#[derive(Debug, Clone, Serialize, Deserialize, AvroSchema)]
#[avro(repr = "bare_union")]
pub enum BareUnion {
    Nothing,
    Number(i64),
    Text(String),
    Pair(i32, bool),
    Rec { a: f64 },
}
impl Corpus for BareUnion {
    fn arb(c: &mut Choices) -> Self {
        match c.pick(5) {
            0 => BareUnion::Nothing,
            1 => BareUnion::Number(gen_long(c)),
            2 => BareUnion::Text(string(c)),
            3 => BareUnion::Pair(gen_int(c), c.bool()),
            _ => BareUnion::Rec { a: [0.0, -1.5, 1e300][c.pick(3)] },
        }
    }
    same_by_debug!();
    fn interesting(&self) -> bool {
        !matches!(self, BareUnion::Nothing)
    }
}

#[derive(Debug, Clone, Serialize, Deserialize, AvroSchema)]
#[avro(repr = "record_tag_content")]
#[serde(tag = "type", content = "value")]
pub enum TagContent {
    A,
    B(String),
    C(String, bool),
    D { n: i32 },
}
impl Corpus for TagContent {
    fn arb(c: &mut Choices) -> Self {
        match c.pick(4) {
            0 => TagContent::A,
            1 => TagContent::B(string(c)),
            2 => TagContent::C(string(c), c.bool()),
            _ => TagContent::D { n: gen_int(c) },
        }
    }
    same_by_debug!();
}

#[derive(Debug, Clone, Serialize, Deserialize, AvroSchema)]
#[avro(repr = "record_internally_tagged")]
#[serde(tag = "kind")]
pub enum InternallyTagged {
    A {},
    B {
        #[avro(default = "0")]
        x: i32,
    },
    C {
        #[avro(default = "7")]
        y: i32,
        #[avro(default = r#""dflt""#)]
        s: String,
    },
}
impl Corpus for InternallyTagged {
    fn arb(c: &mut Choices) -> Self {
        match c.pick(3) {
            0 => InternallyTagged::A {},
            1 => InternallyTagged::B { x: gen_int(c) },
            _ => InternallyTagged::C { y: gen_int(c), s: string(c) },
        }
    }
    same_by_debug!();
}

// ------------------------------------------------------------------ second batch: repeated named
// component types, renaming precedence, namespaces, deeper nestings

/// Each of the library-defined named component types more than once in one type.
#[derive(Debug, Clone, Serialize, Deserialize, AvroSchema)]
pub struct RepeatedComponents {
    pub d1: std::time::Duration,
    pub d2: std::time::Duration,
    pub ds: Vec<std::time::Duration>,
    pub od: Option<std::time::Duration>,
    pub a1: u64,
    pub a2: u64,
    pub b1: i128,
    pub b2: Option<i128>,
    pub c1: u128,
    pub c2: Vec<u128>,
    pub u1: uuid::Uuid,
    pub u2: Option<uuid::Uuid>,
}
impl Corpus for RepeatedComponents {
    fn arb(c: &mut Choices) -> Self {
        let dur = |c: &mut Choices| std::time::Duration::new([0u64, 1, 86_400, u32::MAX as u64, u64::MAX / 4][c.pick(5)], [0u32, 1, 999_999_999][c.pick(3)]);
        let u = |c: &mut Choices| {
            let b = c.bytes(16);
            let mut a = [0u8; 16];
            a.copy_from_slice(&b);
            uuid::Uuid::from_bytes(a)
        };
        RepeatedComponents {
            d1: dur(c),
            d2: dur(c),
            ds: vecn(c, dur),
            od: opt(c, dur),
            a1: c.raw(),
            a2: [0, u64::MAX][c.pick(2)],
            b1: [0, -1, i128::MAX, i128::MIN][c.pick(4)],
            b2: opt(c, |c| [1i128 << 100, -5][c.pick(2)]),
            c1: [0, u128::MAX][c.pick(2)],
            c2: vecn(c, |c| c.raw() as u128 * 0x1_0000_0001),
            u1: u(c),
            u2: opt(c, u),
        }
    }
    same_by_debug!();
}

/// The variant's own rename_all takes precedence over the enum's rename_all_fields (serde's rule).
#[derive(Debug, Clone, Serialize, Deserialize, AvroSchema)]
#[avro(repr = "union_of_records")]
#[serde(rename_all_fields = "SCREAMING_SNAKE_CASE")]
pub enum RenameAllFields {
    Plain {
        side_length: i32,
    },
    #[serde(rename_all = "camelCase")]
    Own {
        side_length: i32,
        other_side: String,
    },
    #[serde(rename = "renamed_variant")]
    Renamed {
        inner_value: Option<i64>,
    },
    Unit,
}
impl Corpus for RenameAllFields {
    fn arb(c: &mut Choices) -> Self {
        match c.pick(4) {
            0 => RenameAllFields::Plain { side_length: gen_int(c) },
            1 => RenameAllFields::Own { side_length: gen_int(c), other_side: string(c) },
            2 => RenameAllFields::Renamed { inner_value: opt(c, gen_long) },
            _ => RenameAllFields::Unit,
        }
    }
    same_by_debug!();
    fn interesting(&self) -> bool {
        !matches!(self, RenameAllFields::Unit)
    }
}

#[derive(Debug, Clone, PartialEq, Serialize, Deserialize, AvroSchema)]
#[serde(rename_all = "snake_case")]
#[avro(namespace = "corpus.other")]
pub enum SnakeEnum {
    FirstValue,
    SecondValue,
    #[serde(rename = "third")]
    ThirdValue,
    // runs of capitals: serde puts an underscore before every capital but the first
    IOError,
    AB,
    HTTPStatusX,
}
impl Corpus for SnakeEnum {
    fn arb(c: &mut Choices) -> Self {
        [SnakeEnum::FirstValue, SnakeEnum::SecondValue, SnakeEnum::ThirdValue, SnakeEnum::IOError, SnakeEnum::AB, SnakeEnum::HTTPStatusX][c.pick(6)].clone()
    }
    same_by_debug!();
}

#[derive(Debug, Clone, PartialEq, Serialize, Deserialize, AvroSchema)]
#[serde(rename_all = "PascalCase")]
#[avro(namespace = "corpus.inner")]
pub struct PascalInner {
    pub some_number: i32,
    pub the_enum: SnakeEnum,
}

/// Types from three namespaces nested in each other, each used in several positions.
#[derive(Debug, Clone, PartialEq, Serialize, Deserialize, AvroSchema)]
#[serde(rename_all = "SCREAMING_SNAKE_CASE")]
#[avro(namespace = "corpus.outer")]
#[serde(rename = "NamespacedOuter")]
pub struct Namespaced {
    pub direct_inner: PascalInner,
    pub optional_inner: Option<PascalInner>,
    pub many_inner: Vec<PascalInner>,
    pub keyed_inner: HashMap<String, PascalInner>,
    pub direct_enum: SnakeEnum,
    pub plain_inner: Inner,
}
impl Corpus for Namespaced {
    fn arb(c: &mut Choices) -> Self {
        let pi = |c: &mut Choices| PascalInner { some_number: gen_int(c), the_enum: SnakeEnum::arb(c) };
        Namespaced { direct_inner: pi(c), optional_inner: opt(c, pi), many_inner: vecn(c, pi), keyed_inner: mapn(c, pi), direct_enum: SnakeEnum::arb(c), plain_inner: Inner::arb(c) }
    }
    fn same(&self, other: &Self) -> bool {
        self == other
    }
}

#[derive(Debug, Clone, PartialEq, Serialize, Deserialize, AvroSchema)]
pub struct DeepNest {
    pub m: HashMap<String, Vec<Option<Inner>>>,
    pub o: Option<Vec<HashMap<String, i32>>>,
    pub b: Box<Inner>,
    pub vv: Vec<Vec<Option<String>>>,
    pub g: Generic<Option<String>>,
}
impl Corpus for DeepNest {
    fn arb(c: &mut Choices) -> Self {
        DeepNest {
            m: mapn(c, |c| vecn(c, |c| opt(c, Inner::arb))),
            o: opt(c, |c| vecn(c, |c| mapn(c, gen_int))),
            b: Box::new(Inner::arb(c)),
            vv: vecn(c, |c| vecn(c, |c| opt(c, string))),
            g: Generic::<Option<String>>::arb_with(c, |c| opt(c, string)),
        }
    }
    fn same(&self, other: &Self) -> bool {
        self == other
    }
}

/// One generic type instantiated with two different parameters in one schema (both instantiations
/// derive the same Avro name: the known finding C17/*/TwoInstantiations).
#[derive(Debug, Clone, PartialEq, Serialize, Deserialize, AvroSchema)]
pub struct TwoInstantiations {
    pub a: Generic<i64>,
    pub b: Generic<String>,
}
impl Corpus for TwoInstantiations {
    fn arb(c: &mut Choices) -> Self {
        TwoInstantiations { a: Generic::<i64>::arb_with(c, gen_long), b: Generic::<String>::arb_with(c, string) }
    }
    fn same(&self, other: &Self) -> bool {
        self == other
    }
}

/// Adjacently tagged enum with renamed variants and fields.
#[derive(Debug, Clone, Serialize, Deserialize, AvroSchema)]
#[avro(repr = "record_tag_content")]
#[serde(tag = "t", content = "c", rename_all = "snake_case")]
pub enum TagContentRenamed {
    UnitLike,
    NewType(String),
    #[serde(rename_all = "camelCase")]
    WithFields {
        first_one: i32,
        second_one: Option<String>,
    },
}
impl Corpus for TagContentRenamed {
    fn arb(c: &mut Choices) -> Self {
        match c.pick(3) {
            0 => TagContentRenamed::UnitLike,
            1 => TagContentRenamed::NewType(string(c)),
            _ => TagContentRenamed::WithFields { first_one: gen_int(c), second_one: opt(c, string) },
        }
    }
    same_by_debug!();
}
