//! Structure-aware hostile encodings: walk a schema and emit bytes where every length,
//! count and index is either honest or taken from a table of hostile values.

use crate::choices::Choices;
use crate::refbin::put_long;
use crate::spec::*;

pub struct Hostile<'c, 'd> {
    pub c: &'c mut Choices<'d>,
    pub limit: usize,
    /// number of hostile decisions taken
    pub injected: usize,
    /// remaining output budget
    pub budget: usize,
    /// probability weight of hostility at each decision (out of 16)
    pub rate: usize,
}

impl<'c, 'd> Hostile<'c, 'd> {
    pub fn new(c: &'c mut Choices<'d>, limit: usize) -> Self {
        Hostile { c, limit, injected: 0, budget: 1500, rate: 3 }
    }

    fn hostile(&mut self) -> bool {
        self.c.pick(16) < self.rate
    }

    /// a hostile length / count, knowing the element size the decoder will multiply with
    pub fn bad_len(&mut self, elem: usize) -> i64 {
        let l = self.limit as i64;
        let e = elem.max(1) as i64;
        let table = [0, -1, 1, l / e - 1, l / e, l / e + 1, l - 1, l, l + 1, 2 * l, 1 << 31, (1 << 31) - 1, 1 << 32, 1 << 40, 1 << 62, i64::MAX, i64::MIN, i64::MIN + 1, -(l / e), -(l / e + 1)];
        self.injected += 1;
        table[self.c.pick(table.len())]
    }

    fn varint_weird(&mut self, out: &mut Vec<u8>) {
        // 11-byte varint, or an overlong encoding of a small number
        self.injected += 1;
        if self.c.bool() {
            out.extend_from_slice(&[0xff; 10]);
            out.push(0x01);
        } else {
            out.extend_from_slice(&[0x80, 0x80, 0x00]);
        }
    }

    fn raw(&mut self, n: usize, out: &mut Vec<u8>) {
        let n = n.min(self.budget);
        self.budget -= n;
        let b = self.c.bytes(n);
        out.extend_from_slice(&b);
    }

    pub fn emit(&mut self, node: &SNode, env: &Env, out: &mut Vec<u8>, depth: usize) {
        if self.budget == 0 || depth > 12 {
            return;
        }
        let node = deref(node, env);
        match &node.ty {
            SType::Null => {}
            SType::Boolean => {
                if self.hostile() {
                    self.injected += 1;
                    out.push(2 + self.c.pick(254) as u8);
                } else {
                    out.push(self.c.pick(2) as u8);
                }
            }
            SType::Int | SType::Long => {
                if self.hostile() {
                    if self.c.bool() {
                        self.varint_weird(out);
                    } else {
                        let v = self.bad_len(1);
                        put_long(v, out);
                    }
                } else {
                    put_long(self.c.int_in(-300, 300) as i64, out);
                }
            }
            SType::Float => self.raw(4, out),
            SType::Double => self.raw(8, out),
            SType::Bytes | SType::String => {
                if self.hostile() {
                    let v = self.bad_len(1);
                    put_long(v, out);
                    let n = self.c.pick(6);
                    self.raw(n, out);
                } else {
                    let n = self.c.pick(12);
                    put_long(n as i64, out);
                    if matches!(node.ty, SType::String) && !self.hostile() {
                        let s: Vec<u8> = (0..n).map(|_| b'a' + self.c.pick(26) as u8).collect();
                        out.extend_from_slice(&s);
                    } else {
                        self.raw(n, out);
                    }
                }
            }
            SType::Fixed(_, size) => {
                let n = if self.hostile() {
                    self.injected += 1;
                    self.c.pick(size + 1)
                } else {
                    *size
                };
                self.raw(n, out);
            }
            SType::Enum(_, symbols, _) => {
                if self.hostile() {
                    self.injected += 1;
                    let v = [symbols.len() as i64, -1, i32::MAX as i64, i32::MIN as i64, 1 << 40][self.c.pick(5)];
                    put_long(v, out);
                } else {
                    put_long(self.c.pick(symbols.len()) as i64, out);
                }
            }
            SType::Union(bs) => {
                if self.hostile() {
                    self.injected += 1;
                    let v = [bs.len() as i64, -1, i32::MAX as i64 + 1, i64::MAX, i64::MIN, 1 << 33][self.c.pick(6)];
                    put_long(v, out);
                    self.raw(2, out);
                } else {
                    let i = self.c.pick(bs.len());
                    put_long(i as i64, out);
                    self.emit(&bs[i], env, out, depth + 1);
                }
            }
            SType::Array(items) | SType::Map(items) => {
                let is_map = matches!(node.ty, SType::Map(_));
                let blocks = self.c.pick(3);
                for _ in 0..blocks {
                    let elem = if is_map { 80 } else { 56 };
                    let (count, actual): (i64, usize) = if self.hostile() {
                        let v = self.bad_len(elem);
                        (v, self.c.pick(3))
                    } else {
                        let n = 1 + self.c.pick(3);
                        (if self.c.chance(1, 3) { -(n as i64) } else { n as i64 }, n)
                    };
                    put_long(count, out);
                    let mut block = vec![];
                    for _ in 0..actual {
                        if is_map {
                            let k = self.c.pick(4);
                            put_long(k as i64, &mut block);
                            block.extend((0..k).map(|i| b'k' + i as u8));
                        }
                        self.emit(items, env, &mut block, depth + 1);
                    }
                    if count < 0 {
                        // byte size of the block: honest or not
                        let sz = if self.hostile() { self.bad_len(1) } else { block.len() as i64 };
                        put_long(sz, out);
                    }
                    out.extend_from_slice(&block);
                }
                if !self.hostile() {
                    put_long(0, out);
                }
            }
            SType::Record(_, fields) => {
                for f in fields {
                    self.emit(&f.node, env, out, depth + 1);
                }
            }
            SType::Ref(_) => unreachable!(),
        }
    }
}

/// One hostile datum for the schema; returns (bytes, hostile decisions taken).
pub fn hostile_datum(node: &SNode, env: &Env, c: &mut Choices, limit: usize) -> (Vec<u8>, usize) {
    let mut h = Hostile::new(c, limit);
    let mut out = vec![];
    h.emit(node, env, &mut out, 0);
    let mut injected = h.injected;
    if c.chance(1, 4) && !out.is_empty() {
        let cut = c.pick(out.len());
        out.truncate(cut);
        injected += 1;
    }
    if c.chance(1, 8) && !out.is_empty() {
        let p = c.pick(out.len());
        out[p] ^= 1 << c.pick(8);
        injected += 1;
    }
    (out, injected)
}
