//! V <-> apache_avro::types::Value. `from_lib` is strict: it is the harness's
//! conformance check (canonical variant at every position).

use crate::json::Js;
use crate::refbin::{from_twos_complement, twos_complement};
use crate::spec::*;
use apache_avro::types::Value;
use apache_avro::{Days, Decimal, Duration, Millis, Months, Schema};
use std::collections::HashMap;

pub fn parse_schema(node: &SNode) -> Result<(String, Schema), String> {
    let text = render_text(node);
    match Schema::parse_str(&text) {
        Ok(s) => Ok((text, s)),
        Err(e) => Err(format!("{e}")),
    }
}

pub fn to_lib(node: &SNode, v: &V, env: &Env) -> Value {
    let node = deref(node, env);
    match (&node.logical, &node.ty, v) {
        (Some(Logical::Date), _, V::Int(i)) => Value::Date(*i),
        (Some(Logical::TimeMillis), _, V::Int(i)) => Value::TimeMillis(*i),
        (Some(Logical::TimeMicros), _, V::Long(i)) => Value::TimeMicros(*i),
        (Some(Logical::TimestampMillis), _, V::Long(i)) => Value::TimestampMillis(*i),
        (Some(Logical::TimestampMicros), _, V::Long(i)) => Value::TimestampMicros(*i),
        (Some(Logical::TimestampNanos), _, V::Long(i)) => Value::TimestampNanos(*i),
        (Some(Logical::LocalTimestampMillis), _, V::Long(i)) => Value::LocalTimestampMillis(*i),
        (Some(Logical::LocalTimestampMicros), _, V::Long(i)) => Value::LocalTimestampMicros(*i),
        (Some(Logical::LocalTimestampNanos), _, V::Long(i)) => Value::LocalTimestampNanos(*i),
        (Some(Logical::Decimal { .. }), SType::Fixed(_, size), V::Decimal(d)) => {
            Value::Decimal(Decimal::from(twos_complement(d, Some(*size)).expect("harness: decimal fits")))
        }
        (Some(Logical::Decimal { .. }), _, V::Decimal(d)) => Value::Decimal(Decimal::from(twos_complement(d, None).unwrap())),
        (Some(Logical::BigDecimal), _, V::BigDecimal(u, s)) => Value::BigDecimal(bigdecimal::BigDecimal::new(u.clone(), *s)),
        (Some(Logical::Uuid), _, V::Uuid(u)) => Value::Uuid(uuid::Uuid::from_bytes(*u)),
        (Some(Logical::Duration), _, V::Duration(a, b, c)) => {
            Value::Duration(Duration::new(Months::new(*a), Days::new(*b), Millis::new(*c)))
        }
        (Some(l), t, v) => panic!("harness to_lib: logical {l:?} on {t:?} with {v:?}"),
        (None, SType::Null, V::Null) => Value::Null,
        (None, SType::Boolean, V::Bool(b)) => Value::Boolean(*b),
        (None, SType::Int, V::Int(i)) => Value::Int(*i),
        (None, SType::Long, V::Long(i)) => Value::Long(*i),
        (None, SType::Float, V::Float(b)) => Value::Float(f32::from_bits(*b)),
        (None, SType::Double, V::Double(b)) => Value::Double(f64::from_bits(*b)),
        (None, SType::Bytes, V::Bytes(b)) => Value::Bytes(b.clone()),
        (None, SType::String, V::Str(s)) => Value::String(s.clone()),
        (None, SType::Fixed(_, _), V::Fixed(b)) => Value::Fixed(b.len(), b.clone()),
        (None, SType::Enum(_, symbols, _), V::Enum(i)) => Value::Enum(*i as u32, symbols[*i].clone()),
        (None, SType::Union(bs), V::Union(i, inner)) => Value::Union(*i as u32, Box::new(to_lib(&bs[*i], inner, env))),
        (None, SType::Array(items), V::Array(a)) => Value::Array(a.iter().map(|x| to_lib(items, x, env)).collect()),
        (None, SType::Map(values), V::Map(m)) => {
            let mut h = HashMap::new();
            for (k, x) in m {
                h.insert(k.clone(), to_lib(values, x, env));
            }
            Value::Map(h)
        }
        (None, SType::Record(_, fields), V::Record(r)) => {
            Value::Record(fields.iter().zip(r).map(|(f, x)| (f.name.clone(), to_lib(&f.node, x, env))).collect())
        }
        (None, t, v) => panic!("harness to_lib: {v:?} on {t:?}"),
    }
}

/// Strict conversion back: Err(description) when the library value is not the
/// canonical representation of some value of the schema.
pub fn from_lib(node: &SNode, val: &Value, env: &Env) -> Result<V, String> {
    let node = deref(node, env);
    let bad = || Err(format!("value {} does not conform to {}", short(val), node.lkind()));
    match (&node.logical, &node.ty, val) {
        (Some(Logical::Date), _, Value::Date(i)) => Ok(V::Int(*i)),
        (Some(Logical::TimeMillis), _, Value::TimeMillis(i)) => Ok(V::Int(*i)),
        (Some(Logical::TimeMicros), _, Value::TimeMicros(i)) => Ok(V::Long(*i)),
        (Some(Logical::TimestampMillis), _, Value::TimestampMillis(i)) => Ok(V::Long(*i)),
        (Some(Logical::TimestampMicros), _, Value::TimestampMicros(i)) => Ok(V::Long(*i)),
        (Some(Logical::TimestampNanos), _, Value::TimestampNanos(i)) => Ok(V::Long(*i)),
        (Some(Logical::LocalTimestampMillis), _, Value::LocalTimestampMillis(i)) => Ok(V::Long(*i)),
        (Some(Logical::LocalTimestampMicros), _, Value::LocalTimestampMicros(i)) => Ok(V::Long(*i)),
        (Some(Logical::LocalTimestampNanos), _, Value::LocalTimestampNanos(i)) => Ok(V::Long(*i)),
        (Some(Logical::Decimal { .. }), ty, Value::Decimal(d)) => {
            let bytes: Vec<u8> = d.try_into().map_err(|e| format!("decimal to bytes: {e}"))?;
            if let SType::Fixed(_, size) = ty {
                if bytes.len() != *size {
                    return Err(format!("decimal width {} for fixed({size})", bytes.len()));
                }
            }
            Ok(V::Decimal(from_twos_complement(&bytes)))
        }
        (Some(Logical::BigDecimal), _, Value::BigDecimal(b)) => {
            let (u, s) = b.as_bigint_and_exponent();
            Ok(V::BigDecimal(u, s))
        }
        (Some(Logical::Uuid), _, Value::Uuid(u)) => Ok(V::Uuid(*u.as_bytes())),
        (Some(Logical::Duration), _, Value::Duration(d)) => {
            Ok(V::Duration(u32::from(d.months()), u32::from(d.days()), u32::from(d.millis())))
        }
        (Some(_), _, _) => bad(),
        (None, SType::Null, Value::Null) => Ok(V::Null),
        (None, SType::Boolean, Value::Boolean(b)) => Ok(V::Bool(*b)),
        (None, SType::Int, Value::Int(i)) => Ok(V::Int(*i)),
        (None, SType::Long, Value::Long(i)) => Ok(V::Long(*i)),
        (None, SType::Float, Value::Float(f)) => Ok(V::Float(f.to_bits())),
        (None, SType::Double, Value::Double(f)) => Ok(V::Double(f.to_bits())),
        (None, SType::Bytes, Value::Bytes(b)) => Ok(V::Bytes(b.clone())),
        (None, SType::String, Value::String(s)) => Ok(V::Str(s.clone())),
        (None, SType::Fixed(_, size), Value::Fixed(n, b)) => {
            if *n != *size || b.len() != *size {
                return Err(format!("fixed length {n}/{} for size {size}", b.len()));
            }
            Ok(V::Fixed(b.clone()))
        }
        (None, SType::Enum(_, symbols, _), Value::Enum(i, s)) => {
            if (*i as usize) < symbols.len() && symbols[*i as usize] == *s {
                Ok(V::Enum(*i as usize))
            } else {
                Err(format!("enum ({i},{s:?}) not in {symbols:?}"))
            }
        }
        (None, SType::Union(bs), Value::Union(i, inner)) => {
            let Some(b) = bs.get(*i as usize) else {
                return Err(format!("union index {i} of {}", bs.len()));
            };
            Ok(V::Union(*i as usize, Box::new(from_lib(b, inner, env)?)))
        }
        (None, SType::Array(items), Value::Array(a)) => Ok(V::Array(a.iter().map(|x| from_lib(items, x, env)).collect::<Result<_, _>>()?)),
        (None, SType::Map(values), Value::Map(m)) => {
            let mut keys: Vec<&String> = m.keys().collect();
            keys.sort();
            let mut out = vec![];
            for k in keys {
                out.push((k.clone(), from_lib(values, &m[k], env)?));
            }
            Ok(V::Map(out))
        }
        (None, SType::Record(_, fields), Value::Record(r)) => {
            if r.len() != fields.len() {
                return Err(format!("record arity {} vs {}", r.len(), fields.len()));
            }
            let mut out = vec![];
            for (f, (name, x)) in fields.iter().zip(r) {
                if *name != f.name {
                    return Err(format!("record field {name:?} where {:?} expected", f.name));
                }
                out.push(from_lib(&f.node, x, env)?);
            }
            Ok(V::Record(out))
        }
        _ => bad(),
    }
}

pub fn short(v: &Value) -> String {
    let s = format!("{v:?}");
    if s.len() > 200 {
        let t: String = s.chars().take(200).collect();
        format!("{t}...")
    } else {
        s
    }
}

/// JSON description of a (schema, value) case for evidence samples / replay details.
pub fn describe(text: &str, v: &V) -> Js {
    let vs = v.to_js().render();
    let vs = if vs.len() > 600 { format!("{}...", vs.chars().take(600).collect::<String>()) } else { vs };
    let ts = if text.len() > 1200 { format!("{}...", text.chars().take(1200).collect::<String>()) } else { text.to_string() };
    Js::obj(vec![("schema", Js::Str(ts)), ("value", Js::Str(vs))])
}
