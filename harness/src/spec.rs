//! Harness-owned schema AST (`SNode`) and value AST (`V`). No library types.

use crate::json::Js;
use num_bigint::BigInt;
use std::collections::BTreeMap;

#[derive(Clone, Debug, PartialEq)]
pub enum Logical {
    Date,
    TimeMillis,
    TimeMicros,
    TimestampMillis,
    TimestampMicros,
    TimestampNanos,
    LocalTimestampMillis,
    LocalTimestampMicros,
    LocalTimestampNanos,
    Decimal { precision: usize, scale: usize },
    BigDecimal,
    Uuid,
    Duration,
}

impl Logical {
    pub fn name(&self) -> &'static str {
        match self {
            Logical::Date => "date",
            Logical::TimeMillis => "time-millis",
            Logical::TimeMicros => "time-micros",
            Logical::TimestampMillis => "timestamp-millis",
            Logical::TimestampMicros => "timestamp-micros",
            Logical::TimestampNanos => "timestamp-nanos",
            Logical::LocalTimestampMillis => "local-timestamp-millis",
            Logical::LocalTimestampMicros => "local-timestamp-micros",
            Logical::LocalTimestampNanos => "local-timestamp-nanos",
            Logical::Decimal { .. } => "decimal",
            Logical::BigDecimal => "big-decimal",
            Logical::Uuid => "uuid",
            Logical::Duration => "duration",
        }
    }
}

/// How a named type's namespace is spelled in the JSON text.
#[derive(Clone, Copy, Debug, PartialEq)]
pub enum NsStyle {
    /// no namespace attribute, simple name (requires ns == enclosing ns)
    Inherit,
    /// "namespace": ns attribute + simple name
    Attr,
    /// dotted full name in "name"
    Dotted,
    /// dotted full name AND a (different, ignored) namespace attribute
    DottedWithAttr,
}

#[derive(Clone, Debug, PartialEq)]
pub struct Named {
    pub name: String,
    /// effective namespace, "" = none
    pub ns: String,
    pub style: NsStyle,
    /// aliases as written (simple or dotted)
    pub aliases: Vec<String>,
    pub doc: Option<String>,
}

impl Named {
    pub fn fullname(&self) -> String {
        if self.ns.is_empty() {
            self.name.clone()
        } else {
            format!("{}.{}", self.ns, self.name)
        }
    }
}

#[derive(Clone, Debug, PartialEq)]
pub struct FieldSpec {
    pub name: String,
    pub node: SNode,
    pub default: Option<Js>,
    pub doc: Option<String>,
    pub aliases: Vec<String>,
    pub order: Option<String>,
    pub attrs: Vec<(String, Js)>,
}

#[derive(Clone, Debug, PartialEq)]
pub enum SType {
    Null,
    Boolean,
    Int,
    Long,
    Float,
    Double,
    Bytes,
    String,
    Array(Box<SNode>),
    Map(Box<SNode>),
    Union(Vec<SNode>),
    Record(Named, Vec<FieldSpec>),
    Enum(Named, Vec<String>, Option<String>),
    Fixed(Named, usize),
    /// reference by full name
    Ref(String),
}

#[derive(Clone, Debug, PartialEq)]
pub struct SNode {
    pub ty: SType,
    pub logical: Option<Logical>,
    /// custom attributes (only rendered on object forms)
    pub attrs: Vec<(String, Js)>,
    /// render a primitive as {"type": "int"} instead of "int"
    pub wrap: bool,
    /// for a Ref: render the full name even where the simple name would do
    pub ref_full: bool,
}

impl SNode {
    pub fn prim(ty: SType) -> SNode {
        SNode {
            ty,
            logical: None,
            attrs: vec![],
            wrap: false,
            ref_full: false,
        }
    }
    pub fn with_logical(mut self, l: Logical) -> SNode {
        self.logical = Some(l);
        self
    }
    pub fn named(&self) -> Option<&Named> {
        match &self.ty {
            SType::Record(n, _) | SType::Enum(n, _, _) | SType::Fixed(n, _) => Some(n),
            _ => None,
        }
    }
    /// kind name used for union-duplicate rules and finding keys
    pub fn kind(&self) -> &'static str {
        match &self.ty {
            SType::Null => "null",
            SType::Boolean => "boolean",
            SType::Int => "int",
            SType::Long => "long",
            SType::Float => "float",
            SType::Double => "double",
            SType::Bytes => "bytes",
            SType::String => "string",
            SType::Array(_) => "array",
            SType::Map(_) => "map",
            SType::Union(_) => "union",
            SType::Record(..) => "record",
            SType::Enum(..) => "enum",
            SType::Fixed(..) => "fixed",
            SType::Ref(_) => "ref",
        }
    }
    /// kind with logical type, e.g. "decimal(bytes)"
    pub fn lkind(&self) -> String {
        match &self.logical {
            Some(l) => format!("{}({})", l.name(), self.kind()),
            None => self.kind().to_string(),
        }
    }
}

pub fn ns_of(fullname: &str) -> &str {
    match fullname.rfind('.') {
        Some(i) => &fullname[..i],
        None => "",
    }
}
pub fn simple_of(fullname: &str) -> &str {
    match fullname.rfind('.') {
        Some(i) => &fullname[i + 1..],
        None => fullname,
    }
}

fn prim_name(ty: &SType) -> Option<&'static str> {
    Some(match ty {
        SType::Null => "null",
        SType::Boolean => "boolean",
        SType::Int => "int",
        SType::Long => "long",
        SType::Float => "float",
        SType::Double => "double",
        SType::Bytes => "bytes",
        SType::String => "string",
        _ => return None,
    })
}

fn named_header(kind: &str, n: &Named, enclosing: &str, out: &mut Vec<(String, Js)>) {
    out.push(("type".into(), Js::str(kind)));
    match n.style {
        NsStyle::Inherit if n.ns == enclosing => out.push(("name".into(), Js::str(&n.name))),
        NsStyle::Inherit | NsStyle::Attr => {
            out.push(("name".into(), Js::str(&n.name)));
            out.push(("namespace".into(), Js::str(&n.ns)));
        }
        NsStyle::Dotted if !n.ns.is_empty() => out.push(("name".into(), Js::str(&n.fullname()))),
        NsStyle::DottedWithAttr if !n.ns.is_empty() => {
            out.push(("name".into(), Js::str(&n.fullname())));
            out.push(("namespace".into(), Js::str("ignored.ns")));
        }
        NsStyle::Dotted | NsStyle::DottedWithAttr => {
            // no namespace: a dotted name cannot say so; fall back to the attribute
            out.push(("name".into(), Js::str(&n.name)));
            if n.ns != enclosing {
                out.push(("namespace".into(), Js::str("")));
            }
        }
    }
    if let Some(d) = &n.doc {
        out.push(("doc".into(), Js::str(d)));
    }
    if !n.aliases.is_empty() {
        out.push((
            "aliases".into(),
            Js::Arr(n.aliases.iter().map(|a| Js::str(a)).collect()),
        ));
    }
}

/// Render a schema node to JSON, `enclosing` = enclosing namespace ("" = none).
pub fn render(node: &SNode, enclosing: &str) -> Js {
    let mut obj: Vec<(String, Js)> = vec![];
    match &node.ty {
        SType::Ref(full) => {
            let s = if ns_of(full) == enclosing && !node.ref_full {
                simple_of(full).to_string()
            } else {
                full.clone()
            };
            return Js::Str(s);
        }
        SType::Union(branches) => {
            return Js::Arr(branches.iter().map(|b| render(b, enclosing)).collect());
        }
        ty if prim_name(ty).is_some() => {
            let p = prim_name(ty).unwrap();
            if node.logical.is_none() && !node.wrap {
                return Js::str(p);
            }
            obj.push(("type".into(), Js::str(p)));
        }
        SType::Array(items) => {
            obj.push(("type".into(), Js::str("array")));
            obj.push(("items".into(), render(items, enclosing)));
        }
        SType::Map(values) => {
            obj.push(("type".into(), Js::str("map")));
            obj.push(("values".into(), render(values, enclosing)));
        }
        SType::Record(n, fields) => {
            named_header("record", n, enclosing, &mut obj);
            let fjs = fields
                .iter()
                .map(|f| {
                    let mut fo: Vec<(String, Js)> = vec![("name".into(), Js::str(&f.name))];
                    if let Some(d) = &f.doc {
                        fo.push(("doc".into(), Js::str(d)));
                    }
                    fo.push(("type".into(), render(&f.node, &n.ns)));
                    if let Some(d) = &f.default {
                        fo.push(("default".into(), d.clone()));
                    }
                    if let Some(o) = &f.order {
                        fo.push(("order".into(), Js::str(o)));
                    }
                    if !f.aliases.is_empty() {
                        fo.push((
                            "aliases".into(),
                            Js::Arr(f.aliases.iter().map(|a| Js::str(a)).collect()),
                        ));
                    }
                    for (k, v) in &f.attrs {
                        fo.push((k.clone(), v.clone()));
                    }
                    Js::Obj(fo)
                })
                .collect();
            obj.push(("fields".into(), Js::Arr(fjs)));
        }
        SType::Enum(n, symbols, default) => {
            named_header("enum", n, enclosing, &mut obj);
            obj.push((
                "symbols".into(),
                Js::Arr(symbols.iter().map(|s| Js::str(s)).collect()),
            ));
            if let Some(d) = default {
                obj.push(("default".into(), Js::str(d)));
            }
        }
        SType::Fixed(n, size) => {
            named_header("fixed", n, enclosing, &mut obj);
            obj.push(("size".into(), Js::int(*size as i128)));
        }
        _ => unreachable!(),
    }
    if let Some(l) = &node.logical {
        obj.push(("logicalType".into(), Js::str(l.name())));
        if let Logical::Decimal { precision, scale } = l {
            obj.push(("precision".into(), Js::int(*precision as i128)));
            obj.push(("scale".into(), Js::int(*scale as i128)));
        }
    }
    for (k, v) in &node.attrs {
        obj.push((k.clone(), v.clone()));
    }
    Js::Obj(obj)
}

pub fn render_text(node: &SNode) -> String {
    render(node, "").render()
}

/// Definitions by full name.
pub type Env = BTreeMap<String, SNode>;

pub fn collect_env(node: &SNode, env: &mut Env) {
    match &node.ty {
        SType::Array(i) | SType::Map(i) => collect_env(i, env),
        SType::Union(bs) => bs.iter().for_each(|b| collect_env(b, env)),
        SType::Record(n, fields) => {
            env.insert(n.fullname(), node.clone());
            fields.iter().for_each(|f| collect_env(&f.node, env));
        }
        SType::Enum(n, ..) | SType::Fixed(n, _) => {
            env.insert(n.fullname(), node.clone());
        }
        _ => {}
    }
}

pub fn env_of(node: &SNode) -> Env {
    let mut env = Env::new();
    collect_env(node, &mut env);
    env
}

/// Follow a Ref to its definition (one step; definitions are never Refs).
pub fn deref<'a>(node: &'a SNode, env: &'a Env) -> &'a SNode {
    match &node.ty {
        SType::Ref(full) => env.get(full).unwrap_or_else(|| panic!("harness: dangling ref {full}")),
        _ => node,
    }
}

/// Minimal value nesting depth needed to build a value of each named type
/// (fixpoint; usize::MAX = no finite value).
pub fn min_depths(env: &Env) -> BTreeMap<String, usize> {
    let mut md: BTreeMap<String, usize> = env.keys().map(|k| (k.clone(), usize::MAX)).collect();
    loop {
        let mut changed = false;
        for (name, def) in env {
            let d = min_depth_def(def, &md);
            if d < md[name] {
                md.insert(name.clone(), d);
                changed = true;
            }
        }
        if !changed {
            break;
        }
    }
    md
}

fn min_depth_def(def: &SNode, md: &BTreeMap<String, usize>) -> usize {
    match &def.ty {
        SType::Record(_, fields) => {
            let mut m = 0usize;
            for f in fields {
                let d = min_depth(&f.node, md);
                if d == usize::MAX {
                    return usize::MAX;
                }
                m = m.max(d);
            }
            m.saturating_add(1)
        }
        _ => 1,
    }
}

pub fn min_depth(node: &SNode, md: &BTreeMap<String, usize>) -> usize {
    match &node.ty {
        SType::Array(_) | SType::Map(_) => 1,
        SType::Union(bs) => bs
            .iter()
            .map(|b| min_depth(b, md))
            .min()
            .unwrap_or(usize::MAX)
            .saturating_add(0),
        SType::Ref(full) => md.get(full).copied().unwrap_or(usize::MAX),
        SType::Record(..) => min_depth_def(node, md),
        _ => 1,
    }
}

// ---------------------------------------------------------------- values

#[derive(Clone, Debug, PartialEq)]
pub enum V {
    Null,
    Bool(bool),
    Int(i32),
    Long(i64),
    /// bit pattern
    Float(u32),
    /// bit pattern
    Double(u64),
    Bytes(Vec<u8>),
    Str(String),
    Fixed(Vec<u8>),
    Enum(usize),
    Union(usize, Box<V>),
    Array(Vec<V>),
    /// entries in generation order, unique keys
    Map(Vec<(String, V)>),
    /// field values in schema order
    Record(Vec<V>),
    /// unscaled value
    Decimal(BigInt),
    /// unscaled, scale
    BigDecimal(BigInt, i64),
    Uuid([u8; 16]),
    Duration(u32, u32, u32),
}

impl V {
    /// Equality with maps as sets.
    pub fn sem_eq(&self, other: &V) -> bool {
        match (self, other) {
            (V::Map(a), V::Map(b)) => {
                a.len() == b.len()
                    && a.iter()
                        .all(|(k, v)| b.iter().any(|(k2, v2)| k == k2 && v.sem_eq(v2)))
            }
            (V::Array(a), V::Array(b)) | (V::Record(a), V::Record(b)) => {
                a.len() == b.len() && a.iter().zip(b).all(|(x, y)| x.sem_eq(y))
            }
            (V::Union(i, a), V::Union(j, b)) => i == j && a.sem_eq(b),
            (V::BigDecimal(a, sa), V::BigDecimal(b, sb)) => bigdec_eq(a, *sa, b, *sb),
            (a, b) => a == b,
        }
    }
    pub fn has_multi_map(&self) -> bool {
        match self {
            V::Map(m) => m.len() >= 2 || m.iter().any(|(_, v)| v.has_multi_map()),
            V::Array(a) | V::Record(a) => a.iter().any(|v| v.has_multi_map()),
            V::Union(_, b) => b.has_multi_map(),
            _ => false,
        }
    }
    pub fn to_js(&self) -> Js {
        match self {
            V::Null => Js::Null,
            V::Bool(b) => Js::Bool(*b),
            V::Int(i) => Js::obj(vec![("int", Js::int(*i as i128))]),
            V::Long(i) => Js::obj(vec![("long", Js::int(*i as i128))]),
            V::Float(b) => Js::obj(vec![("f32bits", Js::int(*b as i128))]),
            V::Double(b) => Js::obj(vec![("f64bits", Js::int(*b as i128))]),
            V::Bytes(b) => Js::obj(vec![("bytes", Js::Str(crate::json::hex(b)))]),
            V::Str(s) => Js::Str(s.clone()),
            V::Fixed(b) => Js::obj(vec![("fixed", Js::Str(crate::json::hex(b)))]),
            V::Enum(i) => Js::obj(vec![("enum", Js::int(*i as i128))]),
            V::Union(i, v) => Js::obj(vec![("union", Js::int(*i as i128)), ("v", v.to_js())]),
            V::Array(a) => Js::Arr(a.iter().map(|v| v.to_js()).collect()),
            V::Map(m) => Js::obj(vec![(
                "map",
                Js::Obj(m.iter().map(|(k, v)| (k.clone(), v.to_js())).collect()),
            )]),
            V::Record(r) => Js::obj(vec![("record", Js::Arr(r.iter().map(|v| v.to_js()).collect()))]),
            V::Decimal(d) => Js::obj(vec![("decimal", Js::Str(d.to_string()))]),
            V::BigDecimal(d, s) => Js::obj(vec![
                ("bigdecimal", Js::Str(d.to_string())),
                ("scale", Js::int(*s as i128)),
            ]),
            V::Uuid(u) => Js::obj(vec![("uuid", Js::Str(crate::json::hex(u)))]),
            V::Duration(a, b, c) => Js::obj(vec![(
                "duration",
                Js::Arr(vec![Js::int(*a as i128), Js::int(*b as i128), Js::int(*c as i128)]),
            )]),
        }
    }
}

fn bigdec_eq(a: &BigInt, sa: i64, b: &BigInt, sb: i64) -> bool {
    // a*10^-sa == b*10^-sb
    let ten = BigInt::from(10);
    if sa >= sb {
        let d = (sa - sb) as u32;
        if d > 400 {
            return a == &BigInt::from(0) && b == &BigInt::from(0);
        }
        *a == b * ten.pow(d)
    } else {
        let d = (sb - sa) as u32;
        if d > 400 {
            return a == &BigInt::from(0) && b == &BigInt::from(0);
        }
        a * ten.pow(d) == *b
    }
}
