use vcore::props;

#[global_allocator]
static GLOBAL: vcore::alloc::Counting = vcore::alloc::Counting;

use vcore::runner::{infra, install_panic_hook, Check};

fn main() {
    let args: Vec<String> = std::env::args().skip(1).collect();
    if args.is_empty() {
        eprintln!("usage: avro-verif <ID> [--tier quick|thorough] [--replay FILE]");
        std::process::exit(2);
    }
    if args[0] == "parse" {
        // debugging aid: parse a schema text and print the verdict
        match apache_avro::Schema::parse_str(&args[1]) {
            Ok(s) => println!("Ok: {}", serde_json::to_string(&s).unwrap_or_default()),
            Err(e) => println!("Err: {e}"),
        }
        return;
    }
    if args[0] == "derived" {
        // debugging aid: print the derived schema of corpus types
        use apache_avro::AvroSchema;
        println!("{}", serde_json::to_string(&vcore::corpus::UnionHolder::get_schema()).unwrap_or_default());
        return;
    }
    let id = args[0].to_uppercase();
    let mut i = 1;
    let mut replay = None;
    let mut child_limit: Option<usize> = None;
    while i < args.len() {
        match args[i].as_str() {
            "--tier" => {
                // SAFETY: single-threaded at this point
                unsafe { std::env::set_var("VERIF_TIER", &args[i + 1]) };
                i += 2;
            }
            "--child" => {
                child_limit = args[i + 1].parse().ok();
                i += 2;
            }
            "--replay" => {
                replay = Some(std::path::PathBuf::from(&args[i + 1]));
                i += 2;
            }
            other => {
                eprintln!("unknown argument {other}");
                std::process::exit(2);
            }
        }
    }
    install_panic_hook();
    let level = match id.as_str() {
        "C13" | "C14" => "fault_enumeration",
        _ => "exploration",
    };
    let mut chk = Check::new(&id, level);
    chk.replay_only = replay;
    match id.as_str() {
        "C01" => props::c01::run(chk),
        "C02" => props::c02::run(chk),
        "C03" => props::c03::run(chk),
        "C04" => props::c04::run(chk),
        "C05" => match child_limit {
            Some(l) => props::c05::run_child(chk, l),
            None => props::c05::run(chk),
        },
        "C06" => props::c06::run(chk),
        "C07" => props::c07::run(chk),
        "C08" => props::c08::run(chk),
        "C09" => props::c09::run(chk),
        "C10" => props::c10::run(chk),
        "C11" => props::c11::run(chk),
        "C12" => props::c12::run(chk),
        "C13" => props::c13::run(chk),
        "C14" => props::c14::run(chk),
        "C15" => props::c15::run(chk),
        "C16" => props::c16::run(chk),
        "C17" => props::c17::run(chk),
        "C18" => props::c18::run(chk),
        "C19" => match child_limit {
            Some(_) => props::c19::run_child(),
            None => props::c19::run(chk),
        },
        "C20" => props::c20::run(chk),
        _ => infra(&format!("no check for {id}")),
    }
}
