use vcore::props;

#[global_allocator]
static GLOBAL: vcore::alloc::Counting = vcore::alloc::Counting;

use vcore::runner::{infra, install_panic_hook, Check};

fn main() {
    let args: Vec<String> = std::env::args().skip(1).collect();
    if args.is_empty() {
        eprintln!("usage: avro-verif <ID> [--tier quick|thorough] [--replay FILE]");
        std::process::exit(2);
    }
    if args[0] == "parse" {
        // debugging aid: parse a schema text and print the verdict
        match apache_avro::Schema::parse_str(&args[1]) {
            Ok(s) => println!("Ok: {}", serde_json::to_string(&s).unwrap_or_default()),
            Err(e) => println!("Err: {e}"),
        }
        return;
    }
    if args[0] == "c10text" {
        // debugging aid: print the schema text a C10 null_ns replay file generates
        let (_, choices) = vcore::runner::read_replay(std::path::Path::new(&args[1])).expect("replay file");
        let mut c = vcore::choices::Choices::new(&choices);
        let cfg = vcore::sgen::SgenCfg { node_budget: 20, null_ns_inside: true, same_simple_names: true, ..vcore::sgen::SgenCfg::decorated() };
        println!("{}", vcore::spec::render_text(&vcore::sgen::gen_schema(&mut c, &cfg)));
        return;
    }
    if args[0] == "derived" {
        // debugging aid: print the derived schema of corpus types
        use apache_avro::AvroSchema;
        println!("{}", serde_json::to_string(&vcore::corpus::UnionHolder::get_schema()).unwrap_or_default());
        return;
    }
    let id = args[0].to_uppercase();
    let mut i = 1;
    let mut replay = None;
    let mut child_limit: Option<usize> = None;
    while i < args.len() {
        match args[i].as_str() {
            "--tier" => {
                // SAFETY: single-threaded at this point
                unsafe { std::env::set_var("VERIF_TIER", &args[i + 1]) };
                i += 2;
            }
            "--child" => {
                child_limit = args[i + 1].parse().ok();
                i += 2;
            }
            "--replay" => {
                replay = Some(std::path::PathBuf::from(&args[i + 1]));
                i += 2;
            }
            other => {
                eprintln!("unknown argument {other}");
                std::process::exit(2);
            }
        }
    }
    // Supervisor: the check itself runs in a worker process that records the case each thread has
    // in flight. If the worker is killed (stack overflow, abort, out of memory) the supervisor finds
    // the in-flight case that reproduces the death and reports it; a panic is caught in-process.
    if std::env::var("VERIF_WORKER").is_err() && child_limit.is_none() && replay.is_none() && id != "C05" && id != "C19" {
        supervise(&id, &args);
    }
    install_panic_hook();
    let level = match id.as_str() {
        "C13" | "C14" => "fault_enumeration",
        _ => "exploration",
    };
    let mut chk = Check::new(&id, level);
    chk.replay_only = replay;
    match id.as_str() {
        "C01" => props::c01::run(chk),
        "C02" => props::c02::run(chk),
        "C03" => props::c03::run(chk),
        "C04" => props::c04::run(chk),
        "C05" => match child_limit {
            Some(l) => props::c05::run_child(chk, l),
            None => props::c05::run(chk),
        },
        "C06" => props::c06::run(chk),
        "C07" => props::c07::run(chk),
        "C08" => props::c08::run(chk),
        "C09" => props::c09::run(chk),
        "C10" => props::c10::run(chk),
        "C11" => props::c11::run(chk),
        "C12" => props::c12::run(chk),
        "C13" => props::c13::run(chk),
        "C14" => props::c14::run(chk),
        "C15" => props::c15::run(chk),
        "C16" => props::c16::run(chk),
        "C17" => props::c17::run(chk),
        "C18" => props::c18::run(chk),
        "C19" => match child_limit {
            Some(_) => props::c19::run_child(),
            None => props::c19::run(chk),
        },
        "C20" => props::c20::run(chk),
        _ => infra(&format!("no check for {id}")),
    }
}

fn supervise(id: &str, args: &[String]) -> ! {
    use std::process::Command;
    let exe = std::env::current_exe().unwrap_or_else(|e| infra(&format!("current_exe: {e}")));
    let out = vcore::runner::out_root();
    let dir = out.join(format!("inflight-{}-{}", id, std::process::id()));
    let _ = std::fs::remove_dir_all(&dir);
    if std::fs::create_dir_all(&dir).is_err() {
        infra("cannot create the in-flight directory");
    }
    let ev = out.join("evidence").join(format!("{id}.json"));
    let before = std::fs::metadata(&ev).and_then(|m| m.modified()).ok();
    let status = Command::new(&exe).args(args).env("VERIF_WORKER", "1").env("VERIF_INFLIGHT_DIR", &dir).status().unwrap_or_else(|e| infra(&format!("cannot start the worker: {e}")));
    if let Some(code) = status.code() {
        let _ = std::fs::remove_dir_all(&dir);
        std::process::exit(code);
    }
    // killed by a signal
    let mut files: Vec<_> = std::fs::read_dir(&dir).map(|rd| rd.filter_map(|e| e.ok()).map(|e| e.path()).collect()).unwrap_or_default();
    files.sort();
    let mut reported = false;
    for f in &files {
        let st = Command::new(&exe).arg(id).arg("--replay").arg(f).env("VERIF_WORKER", "1").env("VERIF_CHILD", "1").env("VERIF_EVIDENCE_PATH", dir.join("replay-evidence.json")).stdout(std::process::Stdio::null()).stderr(std::process::Stdio::null()).status();
        if matches!(&st, Ok(s) if s.code().is_none()) {
            let rdir = out.join("replays").join(id);
            let _ = std::fs::create_dir_all(&rdir);
            let dest = rdir.join(format!("process-killed-{}", f.file_name().map(|n| n.to_string_lossy().to_string()).unwrap_or_default()));
            let _ = std::fs::copy(f, &dest);
            println!("VIOLATION property={id} replay={}", dest.display());
            println!("  key={id}/process-killed msg=the process is killed by a signal ({status}) while this case runs: stack overflow, abort or out of memory inside the code under test");
            reported = true;
            break;
        }
    }
    // the worker did not live to write its evidence
    let after = std::fs::metadata(&ev).and_then(|m| m.modified()).ok();
    if after == before {
        let tier = std::env::var("VERIF_TIER").unwrap_or_else(|_| "quick".into());
        let seed = std::env::var("VERIF_SEED").ok().and_then(|s| s.parse::<u64>().ok()).unwrap_or(0);
        let level = if id == "C13" || id == "C14" { "fault_enumeration" } else { "exploration" };
        let text = format!(
            "{{\"property_id\":\"{id}\",\"tier\":\"{tier}\",\"seed\":{seed},\"level\":\"{level}\",\"coverage\":{{\"evaluations\":{n},\"distinct_nontrivial\":{n},\"rule\":\"the worker process was killed by a signal ({status}); only the cases in flight at that moment are known\",\"samples\":[\"(none: the worker did not report)\"]}},\"assumptions\":[],\"wall_s\":0,\"violations\":{v}}}",
            n = files.len().max(2),
            v = if reported { 1 } else { 0 }
        );
        let _ = std::fs::create_dir_all(ev.parent().unwrap());
        let _ = std::fs::write(&ev, text);
    }
    let _ = std::fs::remove_dir_all(&dir);
    if reported {
        std::process::exit(1);
    }
    println!("INCONCLUSIVE: the worker process was killed by a signal ({status}) and no in-flight case reproduces it");
    std::process::exit(2);
}
