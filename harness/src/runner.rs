//! Campaign runner: proptest-driven choice vectors, sharded over threads,
//! known-finding handling, evidence and replay files.

use crate::choices::{derive_seed, fnv, Choices};
use crate::json::{self, Js};
use proptest::collection::vec as pvec;
use proptest::prelude::any;
use proptest::test_runner::{Config, RngSeed, TestCaseError, TestError, TestRunner};
use std::cell::RefCell;
use std::collections::{BTreeMap, BTreeSet, HashSet};
use std::panic::{catch_unwind, AssertUnwindSafe};
use std::path::{Path, PathBuf};
use std::sync::atomic::{AtomicBool, AtomicU64, Ordering};
use std::sync::Mutex;
use std::time::Instant;

// ---------------------------------------------------------------- failures

#[derive(Clone, Debug)]
pub struct Fail {
    /// stable root-cause-level finding key
    pub key: String,
    pub msg: String,
    pub detail: Js,
}

impl Fail {
    pub fn new(key: impl Into<String>, msg: impl Into<String>) -> Fail {
        Fail { key: key.into(), msg: msg.into(), detail: Js::Null }
    }
    pub fn with(mut self, detail: Js) -> Fail {
        self.detail = detail;
        self
    }
}

pub type CaseResult = Result<(), Fail>;

/// Per-case log filled in by the property code.
#[derive(Default)]
pub struct CaseLog {
    pub labels: Vec<String>,
    pub nontrivial: bool,
    /// hash identifying the case for distinct counting (0 = use choices hash)
    pub hash: u64,
    /// extra evaluations performed inside the case (e.g. one per prefix / fault point)
    pub sub_evals: u64,
    /// distinct non-trivial sub-cases (hashes), e.g. per enumerated fault
    pub sub_nontrivial: Vec<u64>,
    pub sample: Option<Js>,
    /// known-finding keys tolerated inside this case (case continues)
    pub known_hits: Vec<(String, String)>,
    pub strict: bool,
}

impl CaseLog {
    pub fn label(&mut self, l: &str) {
        if !self.labels.iter().any(|x| x == l) {
            self.labels.push(l.to_string());
        }
    }
}

// ---------------------------------------------------------------- panics

thread_local! {
    static LAST_PANIC: RefCell<Option<(String, String)>> = const { RefCell::new(None) };
}

pub fn install_panic_hook() {
    std::panic::set_hook(Box::new(|info| {
        let loc = info.location().map(|l| format!("{}:{}", l.file(), l.line())).unwrap_or_else(|| "?".into());
        let msg = if let Some(s) = info.payload().downcast_ref::<&str>() {
            s.to_string()
        } else if let Some(s) = info.payload().downcast_ref::<String>() {
            s.clone()
        } else {
            "<non-string panic>".to_string()
        };
        LAST_PANIC.with(|p| *p.borrow_mut() = Some((msg, loc)));
    }));
}

#[derive(Debug, Clone)]
pub struct PanicInfo {
    pub msg: String,
    pub loc: String,
}

impl PanicInfo {
    /// location relative to the repository (stable across checkouts)
    pub fn short_loc(&self) -> String {
        let l = &self.loc;
        for marker in ["/avro/src/", "/avro_derive/src/"] {
            if let Some(i) = l.find(marker) {
                return l[i + 1..].to_string();
            }
        }
        if let Some(i) = l.find("/harness/src/") {
            return format!("HARNESS:{}", &l[i + 13..]);
        }
        if l.starts_with("src/") {
            return format!("HARNESS:{}", &l[4..]);
        }
        // dependency crates: keep crate dir + file
        if let Some(i) = l.find("/registry/src/") {
            let rest = &l[i + 14..];
            if let Some(j) = rest.find('/') {
                return format!("dep:{}", &rest[j + 1..]);
            }
        }
        l.clone()
    }
    pub fn in_harness(&self) -> bool {
        // the harness is compiled from its own directory, so its locations are relative
        self.loc.contains("/harness/src/") || self.loc.starts_with("src/")
    }
    pub fn key_loc(&self) -> String {
        // drop the line number: keys must survive unrelated edits
        let s = self.short_loc();
        match s.rfind(':') {
            Some(i) => s[..i].to_string(),
            None => s,
        }
    }
}

/// Run library code, turning a panic into a value.
pub fn guard<T>(f: impl FnOnce() -> T) -> Result<T, PanicInfo> {
    LAST_PANIC.with(|p| *p.borrow_mut() = None);
    match catch_unwind(AssertUnwindSafe(f)) {
        Ok(v) => Ok(v),
        Err(_) => {
            let (msg, loc) = LAST_PANIC.with(|p| p.borrow_mut().take()).unwrap_or(("?".into(), "?".into()));
            Err(PanicInfo { msg, loc })
        }
    }
}

// ---------------------------------------------------------------- known findings

#[derive(Clone, Debug)]
pub struct KnownEntry {
    pub property: String,
    pub key: String,
    pub status: String, // "known" | "fixed"
    pub what: String,
}

pub fn verif_root() -> PathBuf {
    if let Ok(p) = std::env::var("VERIF_ROOT") {
        return PathBuf::from(p);
    }
    PathBuf::from("/verif")
}

/// where evidence and replay output go: VERIF_OUT (runs against seeded changes must not
/// overwrite the evidence of the unchanged tree) or the root
pub fn out_root() -> PathBuf {
    match std::env::var("VERIF_OUT") {
        Ok(p) if !p.is_empty() => PathBuf::from(p),
        _ => verif_root(),
    }
}

pub fn load_known(property: &str) -> Vec<KnownEntry> {
    let path = verif_root().join("known_findings.json");
    let Ok(text) = std::fs::read_to_string(&path) else {
        return vec![];
    };
    let js = json::parse_strict(&text).unwrap_or_else(|e| infra(&format!("known_findings.json does not parse: {e:?}")));
    let mut out = vec![];
    for e in js.get("findings").and_then(|f| f.as_arr()).unwrap_or(&[]) {
        let prop = e.get("property").and_then(|x| x.as_str()).unwrap_or("");
        let also: Vec<&str> = e.get("also").and_then(|x| x.as_arr()).map(|a| a.iter().filter_map(|x| x.as_str()).collect()).unwrap_or_default();
        if prop == property || also.contains(&property) {
            out.push(KnownEntry {
                property: prop.to_string(),
                key: e.get("key").and_then(|x| x.as_str()).unwrap_or("").to_string(),
                status: e.get("status").and_then(|x| x.as_str()).unwrap_or("known").to_string(),
                what: e.get("what").and_then(|x| x.as_str()).unwrap_or("").to_string(),
            });
        }
    }
    out
}

pub fn infra(msg: &str) -> ! {
    eprintln!("INFRASTRUCTURE ERROR: {msg}");
    println!("INCONCLUSIVE: {msg}");
    std::process::exit(2);
}

// ---------------------------------------------------------------- check context

pub struct Check {
    pub property: String,
    pub tier: String,
    pub seed: u64,
    pub level: String,
    pub known: Vec<KnownEntry>,
    pub start: Instant,
    pub threads: usize,
    // accumulated
    pub evaluations: u64,
    pub distinct: HashSet<u64>,
    pub labels: BTreeMap<String, u64>,
    pub samples: Vec<Js>,
    pub known_seen: BTreeMap<String, (u64, String)>,
    pub violations: Vec<(String, String, PathBuf)>,
    pub campaigns: Vec<Js>,
    pub rule: String,
    pub assumptions: Vec<String>,
    pub extra: Vec<(String, Js)>,
    pub replay_only: Option<PathBuf>,
    /// write evidence here instead of evidence/<id>.json (child processes)
    pub evidence_path: Option<PathBuf>,
    /// write the case in flight per shard into this directory (abort attribution)
    pub inflight_dir: Option<PathBuf>,
    /// do not demand >= 2 distinct non-trivial cases (child processes report to a parent)
    pub is_child: bool,
}

pub struct CampaignCfg<'a> {
    pub name: &'a str,
    pub cases: u32,
    pub max_len: usize,
    pub min_len: usize,
    pub max_shrink_iters: u32,
}

impl<'a> CampaignCfg<'a> {
    pub fn new(name: &'a str, cases: u32) -> Self {
        CampaignCfg { name, cases, max_len: 600, min_len: 0, max_shrink_iters: 4000 }
    }
    pub fn len(mut self, min: usize, max: usize) -> Self {
        self.min_len = min;
        self.max_len = max;
        self
    }
}

#[derive(Default)]
struct ShardStats {
    evaluations: u64,
    distinct: HashSet<u64>,
    labels: BTreeMap<String, u64>,
    samples: Vec<(String, Js)>,
    sample_labels: BTreeSet<String>,
    known: BTreeMap<String, (u64, String)>,
}

impl Check {
    pub fn new(property: &str, level: &str) -> Check {
        let tier = std::env::var("VERIF_TIER").unwrap_or_else(|_| "quick".into());
        let seed = std::env::var("VERIF_SEED").ok().and_then(|s| s.parse::<u64>().ok()).unwrap_or(0);
        let threads = std::env::var("VERIF_THREADS")
            .ok()
            .and_then(|s| s.parse().ok())
            .unwrap_or_else(|| std::thread::available_parallelism().map(|n| n.get()).unwrap_or(8).min(16));
        Check {
            property: property.to_string(),
            tier,
            seed,
            level: level.to_string(),
            known: load_known(property),
            start: Instant::now(),
            threads,
            evaluations: 0,
            distinct: HashSet::new(),
            labels: BTreeMap::new(),
            samples: vec![],
            known_seen: BTreeMap::new(),
            violations: vec![],
            campaigns: vec![],
            rule: String::new(),
            assumptions: vec![],
            extra: vec![],
            replay_only: None,
            evidence_path: std::env::var("VERIF_EVIDENCE_PATH").ok().map(PathBuf::from),
            inflight_dir: std::env::var("VERIF_INFLIGHT_DIR").ok().map(PathBuf::from),
            is_child: std::env::var("VERIF_CHILD").is_ok(),
        }
    }

    pub fn thorough(&self) -> bool {
        self.tier == "thorough"
    }

    /// case count scaled by tier
    pub fn scale(&self, quick: u32, thorough: u32) -> u32 {
        if self.thorough() { thorough } else { quick }
    }

    fn is_known(&self, key: &str) -> Option<&KnownEntry> {
        self.known.iter().find(|k| k.status == "known" && key_matches(&k.key, key))
    }

    /// Run one generated campaign. `case` must be a pure function of the choices.
    pub fn campaign<F>(&mut self, cfg: CampaignCfg, case: F)
    where
        F: Fn(&mut Choices, &mut CaseLog) -> CaseResult + Sync,
    {
        if self.replay_only.is_some() {
            return;
        }
        let t0 = Instant::now();
        let shards = self.threads.max(1).min(cfg.cases.max(1) as usize);
        let per = cfg.cases / shards as u32;
        let extra = cfg.cases % shards as u32;
        let stop = AtomicBool::new(false);
        let results: Mutex<Vec<(ShardStats, Option<(Vec<u64>, Fail)>)>> = Mutex::new(vec![]);
        let known_keys: Vec<String> = self.known.iter().filter(|k| k.status == "known").map(|k| k.key.clone()).collect();
        let total_evals = AtomicU64::new(0);
        std::thread::scope(|scope| {
            for shard in 0..shards {
                let n = per + if (shard as u32) < extra { 1 } else { 0 };
                if n == 0 {
                    continue;
                }
                let case = &case;
                let stop = &stop;
                let results = &results;
                let known_keys = &known_keys;
                let total_evals = &total_evals;
                let seed = derive_seed(self.seed, &format!("{}/{}", self.property, cfg.name), shard as u64);
                let name = cfg.name.to_string();
                let prop = self.property.clone();
                let inflight = self.inflight_dir.as_ref().map(|d| d.join(format!("{}.shard{shard}.json", cfg.name)));
                let (min_len, max_len, max_shrink) = (cfg.min_len, cfg.max_len, cfg.max_shrink_iters);
                std::thread::Builder::new()
                    .name(format!("shard{shard}"))
                    .stack_size(256 << 20)
                    .spawn_scoped(scope, move || {
                        let mut config = Config::default();
                        config.cases = n;
                        config.failure_persistence = None;
                        config.rng_seed = RngSeed::Fixed(seed);
                        config.max_shrink_iters = max_shrink;
                        config.max_shrink_time = 0;
                        config.max_global_rejects = 0;
                        config.verbose = 0;
                        let mut runner = TestRunner::new(config);
                        let stats = RefCell::new(ShardStats::default());
                        let failed = std::cell::Cell::new(false);
                        // the most recent input that really failed (for failures that depend on
                        // something outside the choices: thread interleaving, hash seeds)
                        let last_fail: RefCell<Option<(Vec<u64>, Fail)>> = RefCell::new(None);
                        let strat = pvec(any::<u64>(), min_len..max_len.max(min_len + 1));
                        let res = runner.run(&strat, |choices| {
                            if stop.load(Ordering::Relaxed) && !failed.get() {
                                // another shard already failed: finish quickly
                                return Ok(());
                            }
                            if let Some(path) = &inflight {
                                write_inflight(path, &prop, &name, &choices);
                            }
                            let (log, r) = run_case(case, &choices, false);
                            let r = match r {
                                Err(f) if known_keys.iter().any(|k| key_matches(k, &f.key)) => {
                                    if !failed.get() {
                                        let mut st = stats.borrow_mut();
                                        let e = st.known.entry(f.key.clone()).or_insert((0, f.msg.clone()));
                                        e.0 += 1;
                                    }
                                    Ok(())
                                }
                                other => other,
                            };
                            if !failed.get() {
                                let mut st = stats.borrow_mut();
                                st.evaluations += 1 + log.sub_evals;
                                for (k, m) in &log.known_hits {
                                    let e = st.known.entry(k.clone()).or_insert((0, m.clone()));
                                    e.0 += 1;
                                }
                                for l in &log.labels {
                                    *st.labels.entry(l.clone()).or_insert(0) += 1;
                                }
                                if r.is_ok() {
                                    if log.nontrivial {
                                        let h = if log.hash != 0 { log.hash } else { hash_choices(&choices) };
                                        st.distinct.insert(h);
                                    }
                                    for h in &log.sub_nontrivial {
                                        st.distinct.insert(*h);
                                    }
                                    if let Some(s) = log.sample {
                                        let lab = log.labels.iter().find(|l| !st.sample_labels.contains(*l)).cloned();
                                        if let Some(lab) = lab {
                                            if st.samples.len() < 6 {
                                                st.sample_labels.insert(lab.clone());
                                                st.samples.push((lab, s));
                                            }
                                        } else if st.samples.is_empty() {
                                            st.samples.push(("".into(), s));
                                        }
                                    }
                                }
                            }
                            match r {
                                Ok(()) => Ok(()),
                                Err(f) => {
                                    failed.set(true);
                                    stop.store(true, Ordering::Relaxed);
                                    let key = f.key.clone();
                                    *last_fail.borrow_mut() = Some((choices.clone(), f));
                                    Err(TestCaseError::fail(key))
                                }
                            }
                        });
                        let fail = match res {
                            Ok(()) => None,
                            Err(TestError::Fail(_, shrunk)) => {
                                let (_, r) = run_case(case, &shrunk, true);
                                match r {
                                    Err(f) => Some((shrunk, f)),
                                    Ok(()) => match last_fail.borrow_mut().take() {
                                        // keep the failure as observed; the replay file holds the input that produced it
                                        Some((ch, mut f)) => {
                                            f.msg = format!("{} [observed once; the same input passed when run again: the outcome depends on scheduling or hashing outside the input]", f.msg);
                                            Some((ch, f))
                                        }
                                        None => Some((shrunk, Fail::new("nondeterministic", "shrunk case passed on re-run"))),
                                    },
                                }
                            }
                            Err(TestError::Abort(why)) => {
                                Some((vec![], Fail::new("HARNESS/proptest-abort", format!("{why} in {name}"))))
                            }
                        };
                        total_evals.fetch_add(stats.borrow().evaluations, Ordering::Relaxed);
                        results.lock().unwrap().push((stats.into_inner(), fail));
                    })
                    .expect("spawn shard");
            }
        });
        let mut camp_evals = 0;
        let mut first_fail: Option<(Vec<u64>, Fail)> = None;
        let mut shard_results = results.into_inner().unwrap();
        // deterministic merge order
        shard_results.sort_by_key(|(s, _)| std::cmp::Reverse(s.evaluations));
        for (st, fail) in shard_results {
            camp_evals += st.evaluations;
            self.evaluations += st.evaluations;
            self.distinct.extend(st.distinct);
            for (l, n) in st.labels {
                *self.labels.entry(format!("{}:{}", cfg.name, l)).or_insert(0) += n;
            }
            for (lab, s) in st.samples {
                if self.samples.len() < 12 {
                    self.samples.push(Js::obj(vec![("campaign", Js::str(cfg.name)), ("label", Js::Str(lab)), ("case", s)]));
                }
            }
            for (k, (n, m)) in st.known {
                let e = self.known_seen.entry(k).or_insert((0, m));
                e.0 += n;
            }
            if let Some((choices, f)) = fail {
                let better = match &first_fail {
                    None => true,
                    Some((c0, _)) => choices.len() < c0.len(),
                };
                if better {
                    first_fail = Some((choices, f));
                }
            }
        }
        self.campaigns.push(Js::obj(vec![
            ("name", Js::str(cfg.name)),
            ("cases", Js::int(cfg.cases as i128)),
            ("evaluations", Js::int(camp_evals as i128)),
            ("wall_s", Js::Num(format!("{:.2}", t0.elapsed().as_secs_f64()))),
        ]));
        if let Some((choices, f)) = first_fail {
            self.report_violation(cfg.name, &choices, f);
        }
    }

    /// Run a fixed list of explicit cases (probes, enumerations): each is a choice vector.
    pub fn explicit<F>(&mut self, name: &str, inputs: &[Vec<u64>], case: F)
    where
        F: Fn(&mut Choices, &mut CaseLog) -> CaseResult + Sync,
    {
        if self.replay_only.is_some() {
            return;
        }
        let t0 = Instant::now();
        let evals_before = self.evaluations;
        // run in parallel (round-robin so that neighbouring heavy cases spread out),
        // absorb in input order (deterministic)
        let threads = self.threads.max(1).min(inputs.len().max(1));
        let mut slots: Vec<Option<(CaseLog, CaseResult)>> = (0..inputs.len()).map(|_| None).collect();
        let inflight: Vec<Option<PathBuf>> = (0..threads).map(|t| self.inflight_dir.as_ref().map(|d| d.join(format!("{name}.thread{t}.json")))).collect();
        let inflight = &inflight;
        let prop = self.property.as_str();
        std::thread::scope(|scope| {
            let handles: Vec<_> = (0..threads)
                .map(|t| {
                    let case = &case;
                    std::thread::Builder::new()
                        .stack_size(256 << 20)
                        .spawn_scoped(scope, move || {
                            (t..inputs.len())
                                .step_by(threads)
                                .map(|i| {
                                    if let Some(path) = &inflight[t] {
                                        write_inflight(path, prop, name, &inputs[i]);
                                    }
                                    (i, run_case(case, &inputs[i], false))
                                })
                                .collect::<Vec<_>>()
                        })
                        .expect("spawn")
                })
                .collect();
            for h in handles {
                for (i, r) in h.join().unwrap_or_default() {
                    slots[i] = Some(r);
                }
            }
        });
        for (input, slot) in inputs.iter().zip(slots) {
            if let Some((log, r)) = slot {
                self.absorb(name, input, log, r);
            }
        }
        self.campaigns.push(Js::obj(vec![
            ("name", Js::str(name)),
            ("cases", Js::int(inputs.len() as i128)),
            ("evaluations", Js::int((self.evaluations - evals_before) as i128)),
            ("wall_s", Js::Num(format!("{:.2}", t0.elapsed().as_secs_f64()))),
            ("enumerated", Js::Bool(true)),
        ]));
    }

    /// Thorough tier only: a coverage-guided libFuzzer campaign (cargo-fuzz crate in <root>/fuzz)
    /// with the same oracle inside the target. Fixed work (-runs), fresh corpus from `seeds`,
    /// `-seed` derived from VERIF_SEED. Crash artefacts are re-run through the deterministic CLI
    /// in a child process (`--replay`), and only what that child reports counts as a violation;
    /// the final corpus is replayed in-process through `case` so that it is counted as evidence.
    /// Anything that keeps the stage from running (no nightly toolchain, build failure) is
    /// recorded in the evidence and does not change the verdict of the generated campaigns.
    pub fn fuzz_stage<F>(&mut self, target: &str, campaign: &str, runs: u64, max_len: usize, seeds: &[Vec<u8>], case: F)
    where
        F: Fn(&mut Choices, &mut CaseLog) -> CaseResult + Sync,
    {
        if !self.thorough() || self.replay_only.is_some() || self.is_child {
            return;
        }
        let t0 = Instant::now();
        let note = |this: &mut Check, status: &str, fields: Vec<(&str, Js)>| {
            let mut v = vec![("target", Js::str(target)), ("status", Js::str(status)), ("runs_requested", Js::int(runs as i128)), ("wall_s", Js::Num(format!("{:.1}", t0.elapsed().as_secs_f64())))];
            v.extend(fields);
            this.extra.push((format!("libfuzzer:{target}"), Js::obj(v)));
        };
        let fuzz_dir = verif_root().join("fuzz");
        if !fuzz_dir.join("Cargo.toml").exists() {
            note(self, "not run: no fuzz crate", vec![]);
            return;
        }
        let work = out_root().join("fuzz-work").join(format!("{}-{}", self.property, target));
        let _ = std::fs::remove_dir_all(&work);
        let corpus = work.join("corpus");
        let artifacts = work.join("artifacts");
        if std::fs::create_dir_all(&corpus).is_err() || std::fs::create_dir_all(&artifacts).is_err() {
            note(self, "not run: cannot create the work directory", vec![]);
            return;
        }
        for (i, s) in seeds.iter().enumerate() {
            let _ = std::fs::write(corpus.join(format!("seed-{i:04}")), s);
        }
        let lock = fuzz_dir.join("Cargo.lock");
        if !lock.exists() {
            let _ = std::fs::copy(verif_root().join("harness").join("Cargo.lock"), &lock);
        }
        let out = std::process::Command::new("cargo")
            .args(["+nightly", "fuzz", "run", "--fuzz-dir"])
            .arg(&fuzz_dir)
            .arg(target)
            .arg(&corpus)
            .arg("--")
            .arg(format!("-runs={runs}"))
            .arg(format!("-seed={}", self.seed.wrapping_add(1).max(1)))
            .arg("-len_control=0")
            .arg(format!("-max_len={max_len}"))
            .arg(format!("-artifact_prefix={}/", artifacts.display()))
            .arg("-print_final_stats=1")
            .arg("-timeout=120")
            .arg("-rss_limit_mb=6144")
            .current_dir(&fuzz_dir)
            .env("CARGO_NET_OFFLINE", "true")
            .env("VERIF_ROOT", verif_root())
            .stdin(std::process::Stdio::null())
            .output();
        let out = match out {
            Ok(o) => o,
            Err(e) => {
                note(self, &format!("not run: cargo fuzz could not be started: {e}"), vec![]);
                return;
            }
        };
        let stderr = String::from_utf8_lossy(&out.stderr).to_string();
        let stat = |name: &str| -> Option<i128> { stderr.lines().find_map(|l| l.trim().strip_prefix(name).and_then(|r| r.trim().parse::<i128>().ok())) };
        let executed = stat("stat::number_of_executed_units:");
        if executed.is_none() && !stderr.contains("VERIF-FUZZ-FAIL") && !stderr.contains("ERROR: libFuzzer") && !stderr.contains("ERROR: AddressSanitizer") {
            let tail: String = stderr.lines().rev().take(12).collect::<Vec<_>>().into_iter().rev().collect::<Vec<_>>().join(" | ");
            note(self, "not run: build or start-up failure", vec![("stderr_tail", Js::Str(tail))]);
            return;
        }
        let cov = stderr.lines().rev().find_map(|l| {
            let mut it = l.split_whitespace();
            while let Some(w) = it.next() {
                if w == "cov:" {
                    return it.next().and_then(|x| x.parse::<i128>().ok());
                }
            }
            None
        });
        // artefacts
        let mut crashes = vec![];
        let mut others = vec![];
        if let Ok(rd) = std::fs::read_dir(&artifacts) {
            for e in rd.filter_map(|e| e.ok()) {
                let name = e.file_name().to_string_lossy().to_string();
                if name.starts_with("crash-") {
                    crashes.push(e.path());
                } else {
                    others.push(name);
                }
            }
        }
        crashes.sort();
        let exe = std::env::current_exe().ok();
        let mut unreproduced = 0;
        for a in &crashes {
            let Ok(bytes) = std::fs::read(a) else { continue };
            let choices: Vec<u64> = bytes.iter().map(|b| *b as u64).collect();
            let dir = out_root().join("replays").join(&self.property);
            let _ = std::fs::create_dir_all(&dir);
            let path = dir.join(format!("fuzz-{target}-{:016x}.json", fnv(&bytes)));
            let js = Js::obj(vec![
                ("property", Js::str(&self.property)),
                ("campaign", Js::str(campaign)),
                ("key", Js::str("from-libfuzzer-artefact")),
                ("msg", Js::str(&a.file_name().map(|n| n.to_string_lossy().to_string()).unwrap_or_default())),
                ("choices", Js::Arr(choices.iter().map(|c| Js::Num(c.to_string())).collect())),
                ("detail", Js::obj(vec![("input", Js::Str(json::hex(&bytes)))])),
            ]);
            let _ = std::fs::write(&path, js.render());
            let Some(exe) = &exe else { continue };
            let child = std::process::Command::new(exe).arg(&self.property).arg("--replay").arg(&path).env("VERIF_CHILD", "1").env("VERIF_EVIDENCE_PATH", work.join("replay-evidence.json")).output();
            match child {
                Ok(o) => {
                    let so = String::from_utf8_lossy(&o.stdout).to_string();
                    if let Some(l) = so.lines().find(|l| l.starts_with("VIOLATION ")) {
                        let detail = so.lines().skip_while(|x| !x.starts_with("VIOLATION ")).nth(1).unwrap_or("").trim().to_string();
                        let key = detail.split_whitespace().find_map(|w| w.strip_prefix("key=")).unwrap_or("fuzz-artefact").to_string();
                        if !self.violations.iter().any(|(k, _, _)| *k == key) {
                            println!("{l}");
                            println!("  {detail} (found by libFuzzer target {target})");
                            self.violations.push((key, detail, path.clone()));
                        }
                    } else if o.status.code().is_none() {
                        // the deterministic replay died as well: an abort is a violation of C05 only
                        if self.property == "C05" {
                            println!("VIOLATION property=C05 replay={}", path.display());
                            println!("  key=C05/abort/{target} msg=the process is killed by a signal on this input (found by libFuzzer)");
                            self.violations.push((format!("C05/abort/{target}"), "process killed".into(), path.clone()));
                        } else {
                            unreproduced += 1;
                        }
                    } else {
                        // keep the input for a look by hand: it failed inside the fuzz target only
                        unreproduced += 1;
                    }
                }
                Err(_) => unreproduced += 1,
            }
        }
        // the final corpus, through the same oracle, counted as evidence
        let mut inputs: Vec<Vec<u64>> = vec![];
        if let Ok(rd) = std::fs::read_dir(&corpus) {
            let mut files: Vec<_> = rd.filter_map(|e| e.ok()).map(|e| e.path()).collect();
            files.sort();
            for f in files.into_iter().take(20_000) {
                if let Ok(b) = std::fs::read(&f) {
                    inputs.push(b.iter().map(|x| *x as u64).collect());
                }
            }
        }
        let corpus_len = inputs.len();
        if crashes.is_empty() {
            self.explicit(campaign, &inputs, case);
        }
        if let Some(n) = executed {
            // executions inside libFuzzer are evaluations of the same oracle
            self.evaluations += n.max(0) as u64;
        }
        note(
            self,
            if crashes.is_empty() { "completed" } else { "stopped at a failing input" },
            vec![
                ("executed_units", executed.map(Js::int).unwrap_or(Js::Null)),
                ("coverage_edges", cov.map(Js::int).unwrap_or(Js::Null)),
                ("final_corpus", Js::int(corpus_len as i128)),
                ("crash_artefacts", Js::int(crashes.len() as i128)),
                ("artefacts_not_reproduced_by_cli", Js::int(unreproduced)),
                ("other_artefacts_inconclusive", Js::Arr(others.iter().map(|o| Js::str(o)).collect())),
                (
                    "failure_output",
                    if crashes.is_empty() { Js::Null } else { Js::Str(stderr.lines().filter(|l| l.contains("VERIF-FUZZ-FAIL") || l.contains("ERROR:") || l.contains("panicked") || l.contains("SUMMARY")).take(8).collect::<Vec<_>>().join(" | ")) },
                ),
            ],
        );
        let _ = std::fs::remove_dir_all(&work);
    }

    /// Absorb the result of one case executed outside a proptest campaign.
    pub fn absorb(&mut self, campaign: &str, input: &[u64], log: CaseLog, r: CaseResult) {
        self.evaluations += 1 + log.sub_evals;
        for (k, m) in &log.known_hits {
            let e = self.known_seen.entry(k.clone()).or_insert((0, m.clone()));
            e.0 += 1;
        }
        for l in &log.labels {
            *self.labels.entry(format!("{campaign}:{l}")).or_insert(0) += 1;
        }
        match r {
            Ok(()) => {
                if log.nontrivial {
                    self.distinct.insert(if log.hash != 0 { log.hash } else { hash_choices(input) ^ fnv(campaign.as_bytes()) });
                }
                self.distinct.extend(log.sub_nontrivial.iter().copied());
                if let Some(s) = log.sample {
                    if self.samples.len() < 12 {
                        self.samples.push(Js::obj(vec![("campaign", Js::str(campaign)), ("case", s)]));
                    }
                }
            }
            Err(f) => {
                if self.is_known(&f.key).is_some() {
                    let e = self.known_seen.entry(f.key.clone()).or_insert((0, f.msg.clone()));
                    e.0 += 1;
                } else {
                    self.report_violation(campaign, input, f);
                }
            }
        }
    }

    pub fn report_violation(&mut self, campaign: &str, choices: &[u64], f: Fail) {
        if f.key.starts_with("HARNESS") {
            infra(&format!("{}: {} {}", campaign, f.key, f.msg));
        }
        // one report per root-cause key
        if self.violations.iter().any(|(k, _, _)| *k == f.key) {
            *self.labels.entry(format!("more_violations:{}", f.key)).or_insert(0) += 1;
            return;
        }
        let dir = out_root().join("replays").join(&self.property);
        let _ = std::fs::create_dir_all(&dir);
        let h = hash_choices(choices) ^ fnv(campaign.as_bytes());
        let fname = format!("{}-{:016x}.json", sanitize(&f.key), h);
        let path = dir.join(fname);
        let js = Js::obj(vec![
            ("property", Js::str(&self.property)),
            ("campaign", Js::str(campaign)),
            ("key", Js::str(&f.key)),
            ("msg", Js::str(&f.msg)),
            ("choices", Js::Arr(choices.iter().map(|c| Js::Num(c.to_string())).collect())),
            ("detail", f.detail.clone()),
        ]);
        let _ = std::fs::write(&path, js.render());
        println!("VIOLATION property={} replay={}", self.property, path.display());
        println!("  key={} campaign={} msg={}", f.key, campaign, f.msg);
        self.violations.push((f.key, f.msg, path));
    }

    /// Replay tier: every file under replays/<id>/ (or a single file) through `dispatch`.
    pub fn replay_files<F>(&mut self, dispatch: F)
    where
        F: Fn(&str, &mut Choices, &mut CaseLog) -> Option<CaseResult>,
    {
        let files: Vec<PathBuf> = match &self.replay_only {
            Some(p) => vec![p.clone()],
            None => {
                let dir = verif_root().join("regress").join(&self.property);
                let mut v: Vec<PathBuf> = std::fs::read_dir(&dir)
                    .map(|rd| rd.filter_map(|e| e.ok()).map(|e| e.path()).filter(|p| p.extension().map(|e| e == "json").unwrap_or(false)).collect())
                    .unwrap_or_default();
                v.sort();
                v
            }
        };
        for path in files {
            let Some((campaign, choices)) = read_replay(&path) else {
                infra(&format!("unreadable replay file {}", path.display()));
            };
            let mut c = Choices::new(&choices);
            let mut log = CaseLog { strict: true, ..Default::default() };
            let r = guard(|| dispatch(&campaign, &mut c, &mut log));
            let r = match r {
                Ok(Some(r)) => r,
                Ok(None) => infra(&format!("replay {}: unknown campaign {campaign}", path.display())),
                Err(p) => Err(panic_fail(&p)),
            };
            *self.labels.entry("replay-tier".into()).or_insert(0) += 1;
            self.evaluations += 1 + log.sub_evals;
            match r {
                Ok(()) => {}
                Err(f) => {
                    if let Some(k) = self.is_known(&f.key) {
                        let _ = k;
                        let e = self.known_seen.entry(f.key.clone()).or_insert((0, f.msg.clone()));
                        e.0 += 1;
                    } else {
                        println!("VIOLATION property={} replay={}", self.property, path.display());
                        println!("  key={} campaign={} msg={}", f.key, campaign, f.msg);
                        self.violations.push((f.key, f.msg, path.clone()));
                    }
                }
            }
        }
    }

    /// Write evidence, print KNOWN-FINDING lines, exit with the right code.
    pub fn finish(mut self) -> ! {
        let wall = self.start.elapsed().as_secs_f64();
        let mut known_lines = vec![];
        // one line per listed finding (several observed key variants may match one entry)
        let mut per_entry: BTreeMap<String, (u64, String, String)> = BTreeMap::new();
        for (k, (n, msg)) in &self.known_seen {
            let (ek, what) = self.known.iter().find(|e| key_matches(&e.key, k)).map(|e| (e.key.clone(), e.what.clone())).unwrap_or((k.clone(), String::new()));
            let e = per_entry.entry(ek).or_insert((0, msg.clone(), what));
            e.0 += n;
        }
        for (k, (n, msg, what)) in &per_entry {
            println!("KNOWN-FINDING: property={} key={} {} (re-observed {} times; e.g. {})", self.property, k, what, n, truncate(msg, 160));
            known_lines.push(Js::obj(vec![("key", Js::str(k)), ("count", Js::int(*n as i128)), ("example", Js::str(&truncate(msg, 300)))]));
        }
        let not_seen: Vec<Js> = self
            .known
            .iter()
            .filter(|e| e.status == "known" && !self.known_seen.keys().any(|k| key_matches(&e.key, k)))
            .map(|e| Js::str(&e.key))
            .collect();
        if self.samples.is_empty() {
            self.samples.push(Js::str("(no sample recorded)"));
        }
        let mut coverage = vec![
            ("evaluations".to_string(), Js::int(self.evaluations as i128)),
            ("distinct_nontrivial".to_string(), Js::int(self.distinct.len() as i128)),
            ("rule".to_string(), Js::str(&self.rule)),
            ("samples".to_string(), Js::Arr(self.samples.clone())),
            ("labels".to_string(), Js::Obj(self.labels.iter().map(|(k, v)| (k.clone(), Js::int(*v as i128))).collect())),
            ("campaigns".to_string(), Js::Arr(self.campaigns.clone())),
            ("known_findings_reobserved".to_string(), Js::Arr(known_lines)),
            ("known_findings_not_reobserved".to_string(), Js::Arr(not_seen)),
            // the concrete keys behind wildcard entries (to see what a wildcard is covering)
            ("known_finding_keys_observed".to_string(), Js::Obj(self.known_seen.iter().map(|(k, (n, _))| (k.clone(), Js::int(*n as i128))).collect())),
            ("threads".to_string(), Js::int(self.threads as i128)),
        ];
        for (k, v) in self.extra.drain(..) {
            coverage.push((k, v));
        }
        let ev = Js::Obj(vec![
            ("property_id".into(), Js::str(&self.property)),
            ("tier".into(), Js::str(if self.thorough() { "thorough" } else { "quick" })),
            ("seed".into(), Js::int(self.seed as i128)),
            ("level".into(), Js::str(&self.level)),
            ("coverage".into(), Js::Obj(coverage)),
            ("assumptions".into(), Js::Arr(self.assumptions.iter().map(|a| Js::str(a)).collect())),
            ("wall_s".into(), Js::Num(format!("{wall:.2}"))),
            ("violations".into(), Js::int(self.violations.len() as i128)),
        ]);
        if self.replay_only.is_none() {
            let dir = out_root().join("evidence");
            let _ = std::fs::create_dir_all(&dir);
            let path = self.evidence_path.clone().unwrap_or_else(|| dir.join(format!("{}.json", self.property)));
            if let Err(e) = std::fs::write(&path, ev.render()) {
                infra(&format!("cannot write evidence {}: {e}", path.display()));
            }
        }
        println!(
            "{} tier={} seed={} evaluations={} distinct_nontrivial={} violations={} wall={:.1}s",
            self.property,
            self.tier,
            self.seed,
            self.evaluations,
            self.distinct.len(),
            self.violations.len(),
            wall
        );
        if !self.violations.is_empty() {
            std::process::exit(1);
        }
        if self.replay_only.is_none() && !self.is_child && self.distinct.len() < 2 {
            infra("fewer than 2 distinct non-trivial cases: generator needs fixing");
        }
        std::process::exit(0);
    }

    /// Require that a label makes up at least `pct` percent of `of` (else exit 2: generator needs fixing).
    pub fn require_label(&self, label: &str, of: &str, pct: f64) {
        if self.replay_only.is_some() || !self.violations.is_empty() {
            return;
        }
        let n = *self.labels.get(label).unwrap_or(&0) as f64;
        let d = *self.labels.get(of).unwrap_or(&0) as f64;
        if d > 0.0 && n / d * 100.0 < pct {
            infra(&format!("label {label} is {:.2}% of {of} (< {pct}%): generator needs fixing", n / d * 100.0));
        }
    }
}

thread_local! {
    /// (path, open file, length written last time, text buffer) of this thread's in-flight file
    static INFLIGHT: RefCell<Option<(PathBuf, std::fs::File, usize, String)>> = const { RefCell::new(None) };
}

/// Record the case a thread is about to run (a replay file), so that a supervisor can find it if the
/// process is killed. The file is kept open per thread: one positioned write per case.
pub fn write_inflight(path: &Path, property: &str, campaign: &str, choices: &[u64]) {
    use std::os::unix::fs::FileExt;
    INFLIGHT.with(|slot| {
        let mut slot = slot.borrow_mut();
        if !matches!(&*slot, Some((p, ..)) if p == path) {
            let Ok(f) = std::fs::OpenOptions::new().create(true).write(true).truncate(true).open(path) else {
                return;
            };
            *slot = Some((path.to_path_buf(), f, 0, String::new()));
        }
        let Some((_, file, last_len, s)) = slot.as_mut() else {
            return;
        };
        s.clear();
        s.push_str("{\"property\":\"");
        s.push_str(property);
        s.push_str("\",\"campaign\":\"");
        s.push_str(campaign);
        s.push_str("\",\"key\":\"in-flight\",\"msg\":\"case in flight when the process died\",\"choices\":[");
        for (i, c) in choices.iter().enumerate() {
            if i > 0 {
                s.push(',');
            }
            s.push_str(&c.to_string());
        }
        s.push_str("]}");
        // trailing blanks are valid JSON: overwrite what is left of a longer predecessor
        let len = s.len();
        while s.len() < *last_len {
            s.push(' ');
        }
        let _ = file.write_all_at(s.as_bytes(), 0);
        *last_len = len;
    });
}

pub fn key_matches(pattern: &str, key: &str) -> bool {
    if let Some(prefix) = pattern.strip_suffix('*') {
        key.starts_with(prefix)
    } else {
        pattern == key
    }
}

fn truncate(s: &str, n: usize) -> String {
    if s.chars().count() <= n {
        s.to_string()
    } else {
        let t: String = s.chars().take(n).collect();
        format!("{t}...")
    }
}

fn sanitize(s: &str) -> String {
    s.chars().map(|c| if c.is_ascii_alphanumeric() || c == '-' || c == '_' { c } else { '_' }).take(80).collect()
}

pub fn hash_choices(c: &[u64]) -> u64 {
    let mut b = Vec::with_capacity(c.len() * 8);
    for x in c {
        b.extend_from_slice(&x.to_le_bytes());
    }
    fnv(&b)
}

pub fn panic_fail(p: &PanicInfo) -> Fail {
    if p.in_harness() {
        Fail::new(format!("HARNESS/panic/{}", p.short_loc()), p.msg.clone())
    } else {
        Fail::new(format!("panic/{}", p.key_loc()), format!("panic at {}: {}", p.short_loc(), p.msg))
    }
}

/// Run one case; an uncaught panic becomes a Fail keyed by its location.
pub fn run_case<F>(case: &F, choices: &[u64], strict: bool) -> (CaseLog, CaseResult)
where
    F: Fn(&mut Choices, &mut CaseLog) -> CaseResult,
{
    let mut c = Choices::new(choices);
    let mut log = CaseLog { strict, ..Default::default() };
    let r = guard(|| case(&mut c, &mut log));
    match r {
        Ok(r) => (log, r),
        Err(p) => (log, Err(panic_fail(&p))),
    }
}

pub fn read_replay(path: &Path) -> Option<(String, Vec<u64>)> {
    let text = std::fs::read_to_string(path).ok()?;
    let js = json::parse_strict(&text).ok()?;
    let campaign = js.get("campaign")?.as_str()?.to_string();
    let choices = js.get("choices")?.as_arr()?.iter().map(|c| match c {
        Js::Num(s) => s.parse::<u64>().ok(),
        _ => None,
    }).collect::<Option<Vec<u64>>>()?;
    Some((campaign, choices))
}
