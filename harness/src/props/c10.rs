//! C10 — schema -> JSON -> schema is the identity.

use crate::choices::{fnv, Choices};
use crate::json::{self, Js};
use crate::refcheck::{dump, first_diff};
use crate::runner::*;
use crate::sgen::{gen_schema, SgenCfg};
use crate::spec::*;
use apache_avro::{Reader, Schema, Writer};

/// All round-trip oracles for one accepted schema text.
pub fn check_text(text: &str, header_too: bool) -> Result<(), Fail> {
    let det = |extra: Vec<(&str, Js)>| {
        let mut items = vec![("schema_text", Js::str(text))];
        items.extend(extra);
        Js::obj(items)
    };
    let s1 = match Schema::parse_str(text) {
        Ok(s) => s,
        Err(_) => return Ok(()), // not an accepted text: outside this property
    };
    let j1 = guard(|| serde_json::to_string(&s1))
        .map_err(|p| Fail::new(format!("C10/panic/{}", p.key_loc()), p.msg.clone()).with(det(vec![])))?
        .map_err(|e| Fail::new("C10/serialize-error", format!("{e}")).with(det(vec![])))?;
    // strict JSON (no duplicate keys)
    if let Err(e) = json::parse_strict(&j1) {
        let key = match &e.duplicate_key {
            Some(k) => format!("C10/duplicate-key/{k}"),
            None => "C10/not-json".to_string(),
        };
        return Err(Fail::new(key, format!("serialized schema is not strict JSON: {}", e.msg)).with(det(vec![("serialized", Js::str(&j1))])));
    }
    let s2 = Schema::parse_str(&j1).map_err(|e| {
        // an explicitly empty namespace is lost in serialization (known finding); the re-parse then
        // resolves names in the wrong namespace
        let key = if text.contains("\"namespace\":\"\"") && !j1.contains("\"namespace\":\"\"") { "C10/null-namespace-inherited/reparse-rejected" } else { "C10/reparse-rejected" };
        Fail::new(key, format!("the serialized schema is rejected by the parser: {e}")).with(det(vec![("serialized", Js::str(&j1))]))
    })?;
    let (d1, d2) = (dump(&s1), dump(&s2));
    if let Some(diff) = first_diff(&d1, &d2, "") {
        let key = classify(&diff, text);
        return Err(Fail::new(format!("C10/{key}"), format!("schema changed in the JSON round trip at {diff}")).with(det(vec![("serialized", Js::str(&j1))])));
    }
    let j2 = serde_json::to_string(&s2).map_err(|e| Fail::new("C10/serialize-error", format!("{e}")))?;
    if j2 != j1 {
        return Err(Fail::new("C10/text-not-fixpoint", format!("second serialization differs: {j2}")).with(det(vec![("serialized", Js::str(&j1))])));
    }
    if header_too {
        // a container file's embedded schema denotes the schema the writer was given
        let w = Writer::new(&s1, Vec::new()).map_err(|e| Fail::new("C10/writer-new", format!("{e}")).with(det(vec![])))?;
        let file = w.into_inner().map_err(|e| Fail::new("C10/writer-into-inner", format!("{e}")).with(det(vec![])))?;
        let r = Reader::new(&file[..]).map_err(|e| Fail::new("C10/header-unreadable", format!("file written with this schema cannot be opened: {e}")).with(det(vec![])))?;
        if let Some(diff) = first_diff(&d1, &dump(r.writer_schema()), "") {
            let key = classify(&diff, text);
            return Err(Fail::new(format!("C10/header/{key}"), format!("writer_schema() of a file differs from the writer's schema at {diff}")).with(det(vec![])));
        }
    }
    Ok(())
}

/// Root-cause class of a round-trip difference.
fn classify(diff: &str, text: &str) -> String {
    let ns_problem = diff.contains("/namespace:") || diff.ends_with("namespace") || diff.contains("/name/namespace");
    if ns_problem && (text.contains("\"namespace\":\"\"") || text.contains("\"namespace\": \"\"") || text.contains("\".")) {
        "null-namespace-inherited".into()
    } else if diff.contains("/default") {
        "default-changed".into()
    } else if diff.contains("attributes") {
        "attributes-changed".into()
    } else if diff.contains("/doc") {
        "doc-changed".into()
    } else if diff.contains("/aliases") {
        "aliases-changed".into()
    } else if ns_problem || diff.contains("/name") {
        "name-changed".into()
    } else {
        "structure-changed".into()
    }
}

pub fn case_random(c: &mut Choices, log: &mut CaseLog) -> CaseResult {
    let cfg = SgenCfg { node_budget: 30, same_simple_names: true, ..SgenCfg::decorated() };
    let node = gen_schema(c, &cfg);
    let text = render_text(&node);
    log.label("case");
    if Schema::parse_str(&text).is_err() {
        log.label("schema_rejected");
        return Ok(());
    }
    let env = env_of(&node);
    log.nontrivial = env.len() >= 1;
    log.hash = fnv(text.as_bytes());
    log.sample = Some(Js::obj(vec![("schema_text", Js::Str(text.clone()))]));
    check_text(&text, c.chance(1, 4))
}

/// Same with null-namespace types nested in namespaced ones (known finding class).
pub fn case_null_ns(c: &mut Choices, log: &mut CaseLog) -> CaseResult {
    // (not combined with shared simple names: a null-namespace type that is re-qualified with the
    // enclosing namespace then collides with a type of that full name, and the parser recurses
    // without bound - the known finding C10/process-killed/..., probed in a child process by run())
    let cfg = SgenCfg { node_budget: 20, null_ns_inside: true, ..SgenCfg::decorated() };
    let node = gen_schema(c, &cfg);
    let text = render_text(&node);
    log.label("case");
    if Schema::parse_str(&text).is_err() {
        log.label("schema_rejected");
        return Ok(());
    }
    log.nontrivial = text.contains("\"namespace\":\"\"");
    log.hash = fnv(text.as_bytes());
    check_text(&text, false)
}

// ---------------------------------------------------------------- bounded-exhaustive grids

const NS_STYLES: &[&str] = &["plain", "attr", "dotted", "empty-attr", "attr-same-as-outer"];
const KINDS: &[&str] = &["record", "enum", "fixed"];
const CONTEXTS: &[&str] = &["root", "field-of-namespaced-record", "field-of-plain-record", "array-item-in-namespaced-record", "union-branch-in-namespaced-record", "map-value-in-dotted-record"];
const DECOS: &[&str] = &["none", "doc", "aliases", "attr", "all"];

fn named_text(kind: &str, style: &str, deco: &str) -> String {
    let (name, ns) = match style {
        "plain" => ("\"name\":\"T\"".to_string(), String::new()),
        "attr" => ("\"name\":\"T\"".to_string(), ",\"namespace\":\"own.ns\"".to_string()),
        "dotted" => ("\"name\":\"dot.ted.T\"".to_string(), String::new()),
        "empty-attr" => ("\"name\":\"T\"".to_string(), ",\"namespace\":\"\"".to_string()),
        _ => ("\"name\":\"T\"".to_string(), ",\"namespace\":\"outer.ns\"".to_string()),
    };
    let body = match kind {
        "record" => "\"fields\":[{\"name\":\"x\",\"type\":\"int\",\"default\":7,\"doc\":\"fd\"},{\"name\":\"self\",\"type\":[\"null\",\"T\"],\"default\":null}]".to_string(),
        "enum" => "\"symbols\":[\"A\",\"B\"],\"default\":\"B\"".to_string(),
        _ => "\"size\":4".to_string(),
    };
    // the self reference only resolves by simple name when T lives in its own namespace
    let body = if kind == "record" && style == "dotted" { body.replace("\"T\"]", "\"dot.ted.T\"]") } else { body };
    let deco = match deco {
        "doc" => ",\"doc\":\"a \\\"doc\\\" with \\\\ and \\u00e9\"".to_string(),
        "aliases" => ",\"aliases\":[\"Old\",\"other.ns.Older\"]".to_string(),
        "attr" => ",\"custom\":{\"k\":[1,null,\"v\"]},\"flag\":true".to_string(),
        "all" => ",\"doc\":\"d\",\"aliases\":[\"Old\"],\"custom\":1.5".to_string(),
        _ => String::new(),
    };
    format!("{{\"type\":\"{kind}\",{name}{ns},{body}{deco}}}")
}

fn in_context(inner: &str, ctx: &str) -> String {
    match ctx {
        "root" => inner.to_string(),
        "field-of-namespaced-record" => format!("{{\"type\":\"record\",\"name\":\"Outer\",\"namespace\":\"outer.ns\",\"fields\":[{{\"name\":\"f\",\"type\":{inner}}}]}}"),
        "field-of-plain-record" => format!("{{\"type\":\"record\",\"name\":\"Outer\",\"fields\":[{{\"name\":\"f\",\"type\":{inner}}}]}}"),
        "array-item-in-namespaced-record" => format!("{{\"type\":\"record\",\"name\":\"Outer\",\"namespace\":\"outer.ns\",\"fields\":[{{\"name\":\"f\",\"type\":{{\"type\":\"array\",\"items\":{inner},\"arrayAttr\":1}}}}]}}"),
        "union-branch-in-namespaced-record" => format!("{{\"type\":\"record\",\"name\":\"Outer\",\"namespace\":\"outer.ns\",\"fields\":[{{\"name\":\"f\",\"type\":[\"null\",{inner}],\"default\":null}}]}}"),
        _ => format!("{{\"type\":\"record\",\"name\":\"outer.dotted.Outer\",\"fields\":[{{\"name\":\"f\",\"type\":{{\"type\":\"map\",\"values\":{inner},\"mapAttr\":\"m\"}}}}]}}"),
    }
}

const LOGICALS: &[&str] = &["date", "time-millis", "time-micros", "timestamp-millis", "timestamp-micros", "timestamp-nanos", "local-timestamp-millis", "local-timestamp-micros", "local-timestamp-nanos", "decimal", "big-decimal", "uuid", "duration", "unknown-logical"];
const BASES: &[&str] = &[
    "\"type\":\"int\"",
    "\"type\":\"long\"",
    "\"type\":\"float\"",
    "\"type\":\"bytes\"",
    "\"type\":\"string\"",
    "\"type\":\"fixed\",\"name\":\"F12\",\"size\":12",
    "\"type\":\"fixed\",\"name\":\"F16\",\"size\":16",
    "\"type\":\"fixed\",\"name\":\"F4\",\"size\":4",
    "\"type\":{\"type\":\"array\",\"items\":\"int\"}",
];

/// choices: [grid, i, j, k, l]
pub fn case_grid(c: &mut Choices, log: &mut CaseLog) -> CaseResult {
    let grid = c.raw();
    let text = if grid == 0 {
        let kind = KINDS[c.raw() as usize % KINDS.len()];
        let style = NS_STYLES[c.raw() as usize % NS_STYLES.len()];
        let ctx = CONTEXTS[c.raw() as usize % CONTEXTS.len()];
        let deco = DECOS[c.raw() as usize % DECOS.len()];
        log.label(&format!("ns-style:{style}"));
        in_context(&named_text(kind, style, deco), ctx)
    } else {
        let l = LOGICALS[c.raw() as usize % LOGICALS.len()];
        let b = BASES[c.raw() as usize % BASES.len()];
        let extra = match c.raw() % 3 {
            0 => "",
            1 => ",\"precision\":4,\"scale\":2",
            _ => ",\"precision\":4,\"scale\":2,\"custom\":\"x\"",
        };
        let inner = format!("{{{b},\"logicalType\":\"{l}\"{extra}}}");
        if c.raw() % 2 == 0 { inner } else { in_context(&inner, "field-of-namespaced-record") }
    };
    log.label("grid");
    log.nontrivial = true;
    log.hash = fnv(text.as_bytes());
    if grid == 0 && log.sample.is_none() {
        log.sample = Some(Js::obj(vec![("schema_text", Js::Str(text.clone()))]));
    }
    check_text(&text, true)
}

pub fn dispatch(campaign: &str, c: &mut Choices, log: &mut CaseLog) -> Option<CaseResult> {
    match campaign {
        "random" => Some(case_random(c, log)),
        "null_ns" => Some(case_null_ns(c, log)),
        "grid" => Some(case_grid(c, log)),
        _ => None,
    }
}

/// What the library serializes for a well-formed schema with the types R4 ("namespace":""), a.b.R4
/// and ns.R4 (found by the null_ns campaign on seed 5 when it also shared simple names across
/// namespaces): the empty namespace is lost, so this text defines a.b.R4 twice, and parsing it
/// recurses without bound.
const CRASHING_SCHEMA: &str = r#"{"type":"record","namespace":"a.b","name":"e1","fields":[{"name":"a3","type":{"type":"record","name":"R4","fields":[{"name":"value5","type":{"type":"record","namespace":"a.b","name":"R4","fields":[{"name":"next7","type":{"type":"map","values":{"type":"fixed","namespace":"ns","name":"R4","size":8}},"default":{"avro.0":"ltUc4[(!"}}]},"default":{"next7":{"avro.0":"ltUc4[(!"}}},{"name":"f9","type":"a.b.R4","default":{"next7":{}}},{"name":"Z10","type":{"type":"array","items":"a.b.R4"},"default":[]}]},"default":{"Z10":[{"next7":{}},{"next7":{}}],"f9":{"next7":{}},"value5":{"next7":{}}}}]}"#;

pub fn run(mut chk: Check) -> ! {
    chk.rule = "grid: bounded-exhaustive named-type grid {record,enum,fixed} x {no namespace, namespace attribute, dotted name, namespace \"\", same-as-outer} x 6 contexts x 5 decoration sets, and {14 logical type names} x {9 base types incl. disallowed ones} x 3 attribute sets x 2 contexts; \
        random: generated decorated schemas (docs with escapes, aliases, defaults of every JSON kind, custom attributes on every node, order, all logical types, nested/inherited/overridden namespaces, references); null_ns: the same with null-namespace types nested in namespaced records (known finding class). \
        Oracle: serialized JSON is strict (no duplicate keys), parses back to a schema whose complete structural dump equals the original's, second serialization is byte-identical; a file header written with the schema reads back to the same dump. \
        Non-trivial: text with at least one named type. Distinct by hash of the text."
        .into();
    chk.assumptions = vec!["deep equality is equality of the harness's complete dump of the library's Schema (names, order, logical types, sizes, symbols, defaults, docs, aliases, attributes, lookup)".into()];
    chk.replay_files(dispatch);
    if chk.replay_only.is_none() {
        let mut inputs: Vec<Vec<u64>> = vec![];
        for a in 0..KINDS.len() as u64 {
            for b in 0..NS_STYLES.len() as u64 {
                for cx in 0..CONTEXTS.len() as u64 {
                    for d in 0..DECOS.len() as u64 {
                        inputs.push(vec![0, a, b, cx, d]);
                    }
                }
            }
        }
        for l in 0..LOGICALS.len() as u64 {
            for b in 0..BASES.len() as u64 {
                for e in 0..3u64 {
                    for cx in 0..2u64 {
                        inputs.push(vec![1, l, b, e, cx]);
                    }
                }
            }
        }
        chk.explicit("grid", &inputs, case_grid);
        // known finding that kills the process: probed in a child so that the check survives it
        if let Ok(exe) = std::env::current_exe() {
            let st = std::process::Command::new(exe).args(["parse", CRASHING_SCHEMA]).env("VERIF_WORKER", "1").stdout(std::process::Stdio::null()).stderr(std::process::Stdio::null()).status();
            let mut log = CaseLog::default();
            log.label("crash_probe");
            let r = match st {
                Ok(s) if s.code().is_none() => Err(Fail::new(
                    "C10/process-killed/null-namespace-type-requalified-onto-an-existing-name",
                    "Schema::parse_str does not return: the process is killed (stack overflow in the resolution of field defaults)",
                )
                .with(Js::obj(vec![("schema", Js::str(CRASHING_SCHEMA))]))),
                _ => Ok(()),
            };
            chk.absorb("crash_probe", &[0], log, r);
        }
    }
    let n = chk.scale(400_000, 2_000_000);
    chk.campaign(CampaignCfg::new("random", n), case_random);
    chk.campaign(CampaignCfg::new("null_ns", n / 4), case_null_ns);
    chk.finish()
}
