//! C02 — the encoding is the specified one (differential against refbin).

use super::common::*;
use crate::choices::{fnv, Choices};
use crate::dynserde;
use crate::json::Js;
use crate::refbin::{self, DecErr, Layout, LayoutStats};
use crate::runner::*;
use crate::sgen::SgenCfg;
use crate::tolib::{describe, from_lib, short, to_lib};
use crate::vgen;
use apache_avro::reader::datum::GenericDatumReader;
use apache_avro::writer::datum::GenericDatumWriter;

/// library bytes -> reference decoder
pub fn case_forward(c: &mut Choices, log: &mut CaseLog) -> CaseResult {
    let Some(sub) = gen_subject(c, &SgenCfg::full(), log)? else {
        return Ok(());
    };
    let v = vgen::gen_value(c, &sub.node, &sub.env);
    log.label("case");
    log.nontrivial = vgen::nontrivial(&sub.node, &v, &sub.env);
    log.hash = fnv(format!("F|{}|{:?}", sub.text, v).as_bytes());
    log.sample = Some(describe(&sub.text, &v));
    let lv = to_lib(&sub.node, &v, &sub.env);
    let w = GenericDatumWriter::builder(&sub.schema).build().map_err(|e| Fail::new("C02/writer-build", format!("{e}")))?;
    let bytes = w
        .write_value_to_vec(lv.clone())
        .map_err(|e| Fail::new("C02/encode-error", format!("{e}")).with(detail(&sub, &v, vec![("lib_value", Js::Str(short(&lv)))])))?;
    match refbin::decode(&sub.node, &sub.env, &bytes) {
        Ok((got, used)) => {
            if !got.sem_eq(&v) {
                return Err(Fail::new("C02/forward-mismatch", "reference decoder reads a different value from the library's bytes")
                    .with(detail(&sub, &v, vec![("bytes", bytes_js(&bytes)), ("reference_got", Js::Str(got.to_js().render()))])));
            }
            if used != bytes.len() {
                return Err(Fail::new("C02/forward-trailing", format!("reference decoder consumed {used} of {} bytes", bytes.len()))
                    .with(detail(&sub, &v, vec![("bytes", bytes_js(&bytes))])));
            }
        }
        Err(e) => {
            let what = match e {
                DecErr::Eof => "unexpected end".to_string(),
                DecErr::Bad(m) => m,
            };
            return Err(Fail::new("C02/forward-undecodable", format!("reference decoder rejects the library's bytes: {what}"))
                .with(detail(&sub, &v, vec![("bytes", bytes_js(&bytes))])));
        }
    }
    Ok(())
}

/// reference bytes in any legal layout -> library
pub fn case_reverse(c: &mut Choices, log: &mut CaseLog) -> CaseResult {
    let Some(sub) = gen_subject(c, &SgenCfg::full(), log)? else {
        return Ok(());
    };
    let v = vgen::gen_value(c, &sub.node, &sub.env);
    let mut stats = LayoutStats::default();
    let bytes = {
        let mut layout = Layout::Random(c);
        refbin::encode(&sub.node, &v, &sub.env, &mut layout, &mut stats)
    };
    let tl = c.pick(4);
    let tail = c.bytes(tl);
    log.label("case");
    if stats.multi_block > 0 {
        log.label("multi_block");
    }
    if stats.negative > 0 {
        log.label("negative_count");
    }
    if stats.permuted > 0 {
        log.label("map_permuted");
    }
    log.nontrivial = stats.multi_block > 0 || stats.negative > 0 || vgen::nontrivial(&sub.node, &v, &sub.env);
    log.hash = fnv(&[format!("R|{}|", sub.text).as_bytes(), &bytes].concat());
    log.sample = Some(Js::obj(vec![("schema", Js::Str(sub.text.clone())), ("value", Js::Str(v.to_js().render())), ("layout_bytes", bytes_js(&bytes))]));
    let reader = GenericDatumReader::builder(&sub.schema).build().map_err(|e| Fail::new("C02/reader-build", format!("{e}")))?;
    let mut data = bytes.clone();
    data.extend_from_slice(&tail);
    let mut slice: &[u8] = &data;
    let got = reader.read_value(&mut slice).map_err(|e| {
        Fail::new("C02/reverse-rejected", format!("library rejects a spec-legal encoding: {e}")).with(detail(&sub, &v, vec![("bytes", bytes_js(&bytes))]))
    })?;
    let back = from_lib(&sub.node, &got, &sub.env)
        .map_err(|m| Fail::new("C02/reverse-nonconforming", m).with(detail(&sub, &v, vec![("bytes", bytes_js(&bytes)), ("got", Js::Str(short(&got)))])))?;
    if !back.sem_eq(&v) {
        return Err(Fail::new("C02/reverse-mismatch", "library reads a different value from a spec-legal encoding")
            .with(detail(&sub, &v, vec![("bytes", bytes_js(&bytes)), ("got", Js::Str(back.to_js().render()))])));
    }
    if slice != &tail[..] {
        return Err(Fail::new("C02/reverse-consumption", format!("{} bytes left, expected {}", slice.len(), tail.len()))
            .with(detail(&sub, &v, vec![("bytes", bytes_js(&bytes))])));
    }
    // the same bytes through the schema-aware deserializer
    let option_style = c.bool();
    let mut slice: &[u8] = &data;
    let got = dynserde::with_ctx(&sub.node, &sub.env, option_style, || reader.read_deser::<dynserde::DynOut>(&mut slice)).map_err(|e| {
        Fail::new("C02/reverse-deser-rejected", format!("schema-aware deserializer rejects a spec-legal encoding: {e}"))
            .with(detail(&sub, &v, vec![("bytes", bytes_js(&bytes))]))
    })?;
    if !got.0.sem_eq(&v) {
        return Err(Fail::new("C02/reverse-deser-mismatch", "schema-aware deserializer reads a different value from a spec-legal encoding")
            .with(detail(&sub, &v, vec![("bytes", bytes_js(&bytes)), ("got", Js::Str(got.0.to_js().render()))])));
    }
    if slice != &tail[..] {
        return Err(Fail::new("C02/reverse-deser-consumption", format!("{} bytes left, expected {}", slice.len(), tail.len()))
            .with(detail(&sub, &v, vec![("bytes", bytes_js(&bytes))])));
    }
    Ok(())
}

/// schema-aware serializer (direct and buffered blocks) -> reference decoder
pub fn case_serde_writer(c: &mut Choices, log: &mut CaseLog) -> CaseResult {
    let Some(sub) = gen_subject(c, &SgenCfg::full(), log)? else {
        return Ok(());
    };
    let v = vgen::gen_value(c, &sub.node, &sub.env);
    let tbs = [None, Some(0usize), Some(1), Some(16), Some(4096)][c.pick(5)];
    let plan = dynserde::SerPlan { seed: if c.bool() { 0 } else { c.raw() | 1 } };
    log.label("case");
    log.label(&format!("block_size:{tbs:?}"));
    if plan.seed != 0 {
        log.label("varied_calls");
    }
    log.nontrivial = vgen::nontrivial(&sub.node, &v, &sub.env);
    log.hash = fnv(format!("S|{}|{:?}|{:?}|{}", sub.text, v, tbs, plan.seed).as_bytes());
    log.sample = Some(describe(&sub.text, &v));
    let w = GenericDatumWriter::builder(&sub.schema)
        .maybe_target_block_size(tbs)
        .build()
        .map_err(|e| Fail::new("C02/writer-build", format!("{e}")))?;
    let mut bytes = vec![];
    w.write_ser(&mut bytes, &dynserde::DynSer::new(&sub.node, &v, &sub.env, plan)).map_err(|e| {
        Fail::new("C02/serde-encode-error", format!("schema-aware serializer refuses a conforming value: {e}"))
            .with(detail(&sub, &v, vec![("target_block_size", Js::Str(format!("{tbs:?}"))), ("plan", Js::int(plan.seed as i128))]))
    })?;
    match refbin::decode(&sub.node, &sub.env, &bytes) {
        Ok((got, used)) => {
            if !got.sem_eq(&v) {
                return Err(Fail::new("C02/serde-forward-mismatch", "reference decoder reads a different value from the serializer's bytes")
                    .with(detail(&sub, &v, vec![("bytes", bytes_js(&bytes)), ("reference_got", Js::Str(got.to_js().render())), ("target_block_size", Js::Str(format!("{tbs:?}")))])));
            }
            if used != bytes.len() {
                return Err(Fail::new("C02/serde-forward-trailing", format!("reference decoder consumed {used} of {} bytes", bytes.len()))
                    .with(detail(&sub, &v, vec![("bytes", bytes_js(&bytes))])));
            }
        }
        Err(e) => {
            return Err(Fail::new("C02/serde-forward-undecodable", format!("reference decoder rejects the serializer's bytes: {e:?}"))
                .with(detail(&sub, &v, vec![("bytes", bytes_js(&bytes)), ("target_block_size", Js::Str(format!("{tbs:?}")))])));
        }
    }
    Ok(())
}

pub fn dispatch(campaign: &str, c: &mut Choices, log: &mut CaseLog) -> Option<CaseResult> {
    match campaign {
        "forward" => Some(case_forward(c, log)),
        "reverse" => Some(case_reverse(c, log)),
        "serde_writer" => Some(case_serde_writer(c, log)),
        _ => None,
    }
}

pub fn run(mut chk: Check) -> ! {
    if let Err(e) = refbin::self_test() {
        infra(&format!("refbin self-test failed: {e}"));
    }
    chk.rule = "forward: generated (schema,value) -> library bytes -> independent decoder (strict about physical layout of logical types). \
        reverse: independent encoder with generated layout plan (block partitions, negative counts with byte sizes, map order) -> library. \
        Non-trivial: multi-block or negative-count layout, or value non-trivial as in C01. Distinct by hash of (schema, bytes/value)."
        .into();
    chk.assumptions = vec!["refbin implements the specification (golden self-tests from the spec text run at start-up)".into()];
    chk.replay_files(dispatch);
    let n = chk.scale(400_000, 2_000_000);
    chk.campaign(CampaignCfg::new("forward", n), case_forward);
    chk.campaign(CampaignCfg::new("reverse", n), case_reverse);
    chk.campaign(CampaignCfg::new("serde_writer", n / 2), case_serde_writer);
    chk.require_label("reverse:multi_block", "reverse:case", 5.0);
    chk.require_label("reverse:negative_count", "reverse:case", 5.0);
    chk.finish()
}
