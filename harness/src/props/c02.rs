//! C02 — the encoding is the specified one (differential against refbin).

use super::common::*;
use crate::choices::{fnv, Choices};
use crate::json::Js;
use crate::refbin::{self, DecErr, Layout, LayoutStats};
use crate::runner::*;
use crate::sgen::SgenCfg;
use crate::tolib::{describe, from_lib, short, to_lib};
use crate::vgen;
use apache_avro::reader::datum::GenericDatumReader;
use apache_avro::writer::datum::GenericDatumWriter;

/// library bytes -> reference decoder
pub fn case_forward(c: &mut Choices, log: &mut CaseLog) -> CaseResult {
    let Some(sub) = gen_subject(c, &SgenCfg::full(), log)? else {
        return Ok(());
    };
    let v = vgen::gen_value(c, &sub.node, &sub.env);
    log.label("case");
    log.nontrivial = vgen::nontrivial(&sub.node, &v, &sub.env);
    log.hash = fnv(format!("F|{}|{:?}", sub.text, v).as_bytes());
    log.sample = Some(describe(&sub.text, &v));
    let lv = to_lib(&sub.node, &v, &sub.env);
    let w = GenericDatumWriter::builder(&sub.schema).build().map_err(|e| Fail::new("C02/writer-build", format!("{e}")))?;
    let bytes = w
        .write_value_to_vec(lv.clone())
        .map_err(|e| Fail::new("C02/encode-error", format!("{e}")).with(detail(&sub, &v, vec![("lib_value", Js::Str(short(&lv)))])))?;
    match refbin::decode(&sub.node, &sub.env, &bytes) {
        Ok((got, used)) => {
            if !got.sem_eq(&v) {
                return Err(Fail::new("C02/forward-mismatch", "reference decoder reads a different value from the library's bytes")
                    .with(detail(&sub, &v, vec![("bytes", bytes_js(&bytes)), ("reference_got", Js::Str(got.to_js().render()))])));
            }
            if used != bytes.len() {
                return Err(Fail::new("C02/forward-trailing", format!("reference decoder consumed {used} of {} bytes", bytes.len()))
                    .with(detail(&sub, &v, vec![("bytes", bytes_js(&bytes))])));
            }
        }
        Err(e) => {
            let what = match e {
                DecErr::Eof => "unexpected end".to_string(),
                DecErr::Bad(m) => m,
            };
            return Err(Fail::new("C02/forward-undecodable", format!("reference decoder rejects the library's bytes: {what}"))
                .with(detail(&sub, &v, vec![("bytes", bytes_js(&bytes))])));
        }
    }
    Ok(())
}

/// reference bytes in any legal layout -> library
pub fn case_reverse(c: &mut Choices, log: &mut CaseLog) -> CaseResult {
    let Some(sub) = gen_subject(c, &SgenCfg::full(), log)? else {
        return Ok(());
    };
    let v = vgen::gen_value(c, &sub.node, &sub.env);
    let mut stats = LayoutStats::default();
    let bytes = {
        let mut layout = Layout::Random(c);
        refbin::encode(&sub.node, &v, &sub.env, &mut layout, &mut stats)
    };
    let tl = c.pick(4);
    let tail = c.bytes(tl);
    log.label("case");
    if stats.multi_block > 0 {
        log.label("multi_block");
    }
    if stats.negative > 0 {
        log.label("negative_count");
    }
    if stats.permuted > 0 {
        log.label("map_permuted");
    }
    log.nontrivial = stats.multi_block > 0 || stats.negative > 0 || vgen::nontrivial(&sub.node, &v, &sub.env);
    log.hash = fnv(&[format!("R|{}|", sub.text).as_bytes(), &bytes].concat());
    log.sample = Some(Js::obj(vec![("schema", Js::Str(sub.text.clone())), ("value", Js::Str(v.to_js().render())), ("layout_bytes", bytes_js(&bytes))]));
    let reader = GenericDatumReader::builder(&sub.schema).build().map_err(|e| Fail::new("C02/reader-build", format!("{e}")))?;
    let mut data = bytes.clone();
    data.extend_from_slice(&tail);
    let mut slice: &[u8] = &data;
    let got = reader.read_value(&mut slice).map_err(|e| {
        Fail::new("C02/reverse-rejected", format!("library rejects a spec-legal encoding: {e}")).with(detail(&sub, &v, vec![("bytes", bytes_js(&bytes))]))
    })?;
    let back = from_lib(&sub.node, &got, &sub.env)
        .map_err(|m| Fail::new("C02/reverse-nonconforming", m).with(detail(&sub, &v, vec![("bytes", bytes_js(&bytes)), ("got", Js::Str(short(&got)))])))?;
    if !back.sem_eq(&v) {
        return Err(Fail::new("C02/reverse-mismatch", "library reads a different value from a spec-legal encoding")
            .with(detail(&sub, &v, vec![("bytes", bytes_js(&bytes)), ("got", Js::Str(back.to_js().render()))])));
    }
    if slice != &tail[..] {
        return Err(Fail::new("C02/reverse-consumption", format!("{} bytes left, expected {}", slice.len(), tail.len()))
            .with(detail(&sub, &v, vec![("bytes", bytes_js(&bytes))])));
    }
    Ok(())
}

pub fn dispatch(campaign: &str, c: &mut Choices, log: &mut CaseLog) -> Option<CaseResult> {
    match campaign {
        "forward" => Some(case_forward(c, log)),
        "reverse" => Some(case_reverse(c, log)),
        _ => None,
    }
}

pub fn run(mut chk: Check) -> ! {
    if let Err(e) = refbin::self_test() {
        infra(&format!("refbin self-test failed: {e}"));
    }
    chk.rule = "forward: generated (schema,value) -> library bytes -> independent decoder (strict about physical layout of logical types). \
        reverse: independent encoder with generated layout plan (block partitions, negative counts with byte sizes, map order) -> library. \
        Non-trivial: multi-block or negative-count layout, or value non-trivial as in C01. Distinct by hash of (schema, bytes/value)."
        .into();
    chk.assumptions = vec!["refbin implements the specification (golden self-tests from the spec text run at start-up)".into()];
    chk.replay_files(dispatch);
    let n = chk.scale(4000, 300_000);
    chk.campaign(CampaignCfg::new("forward", n), case_forward);
    chk.campaign(CampaignCfg::new("reverse", n), case_reverse);
    chk.require_label("reverse:multi_block", "reverse:case", 5.0);
    chk.require_label("reverse:negative_count", "reverse:case", 5.0);
    chk.finish()
}
