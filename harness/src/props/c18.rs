//! C18 — single-object messages: header, independence of messages on one writer, rejection of foreign headers.

use super::c03::{accepted_but_refused, rejected_value};
use super::common::*;
use crate::choices::{fnv, Choices};
use crate::dynserde;
use crate::json::{self, Js};
use crate::refbin;
use crate::refpcf;
use crate::runner::*;
use crate::sgen::SgenCfg;
use crate::sinks::*;
use crate::spec::*;
use crate::tolib::{from_lib, short, to_lib};
use crate::vgen;
use apache_avro::{GenericSingleObjectReader, GenericSingleObjectWriter};

/// Profile without the C12 known-finding classes (logical types) so that the expected
/// fingerprint is the specified one.
pub fn cfg() -> SgenCfg {
    SgenCfg { logical: false, node_budget: 14, max_depth: 3, ..SgenCfg::full() }
}

fn expected_header(sub: &Subject) -> Result<Vec<u8>, Fail> {
    let js = json::parse_strict(&sub.text).map_err(|e| Fail::new("HARNESS/schema-json", format!("{e:?}")))?;
    refpcf::single_object_header(&js).map_err(|e| Fail::new("HARNESS/refpcf", e))
}

pub fn case_sequence(c: &mut Choices, log: &mut CaseLog) -> CaseResult {
    let Some(sub) = gen_subject(c, &cfg(), log)? else {
        return Ok(());
    };
    let header = expected_header(&sub)?;
    let md = min_depths(&sub.env);
    // short datums matter: a stale buffer of <= 10 bytes still passes the writer's own sanity check
    let vcfg = vgen::VgenCfg { big_collections: false, long_strings: false, max_items: 2, ..vgen::VgenCfg::small() };
    let mut writer = GenericSingleObjectWriter::new_with_capacity(&sub.schema, [0usize, 16, 1024][c.pick(3)]).map_err(|e| Fail::new("C18/writer-new", format!("{e}")))?;
    let reader = GenericSingleObjectReader::builder().schema(sub.schema.clone()).build().map_err(|e| Fail::new("C18/reader-new", format!("{e}")))?;
    let steps = 2 + c.pick(10);
    let mut trace: Vec<String> = vec![];
    let mut fail_before_success = false;
    let mut pending_fail = false;
    let mut lens: Vec<usize> = vec![];
    let mut last_good: Option<(V, Vec<u8>)> = None;
    let det = |trace: &Vec<String>, extra: Vec<(&str, Js)>| {
        let mut items = vec![("schema", Js::Str(sub.text.clone())), ("steps", Js::Arr(trace.iter().map(|t| Js::str(t)).collect()))];
        items.extend(extra);
        Js::obj(items)
    };
    for _ in 0..steps {
        match c.weighted(&[8, 2, 2, 3, 2]) {
            0 | 4 => {
                // good value, perfect or short-write sink
                let v = vgen::gen_value_cfg(c, &sub.node, &sub.env, &md, &vcfg);
                let lv = to_lib(&sub.node, &v, &sub.env);
                let short_sink = c.chance(1, 3);
                let mut sink = FaultSink::new(if short_sink { Plan::AtMost(1 + c.pick(4)) } else { Plan::All });
                trace.push(format!("write {}{}", v.to_js().render(), if short_sink { " (short-write sink)" } else { "" }));
                let n = writer
                    .write_value_ref(&lv, &mut sink)
                    .map_err(|e| Fail::new("C18/good-refused", format!("{e}")).with(det(&trace, vec![])))?;
                // header exactly; datum by the reference decoder (map entry order is free)
                let head_ok = sink.data.len() >= 10 && sink.data[..10] == header[..];
                let datum_ok = head_ok
                    && match refbin::decode(&sub.node, &sub.env, &sink.data[10..]) {
                        Ok((got, used)) => used == sink.data.len() - 10 && got.sem_eq(&v),
                        Err(_) => false,
                    };
                if !datum_ok {
                    let mut want = header.clone();
                    want.extend_from_slice(&refbin::encode_canonical(&sub.node, &v, &sub.env));
                    let key = if !head_ok {
                        "C18/wrong-header"
                    } else if pending_fail || !lens.is_empty() {
                        "C18/message-not-independent"
                    } else {
                        "C18/wrong-message"
                    };
                    return Err(Fail::new(key, format!("message is {} but header||datum is {}", json::hex(&sink.data), json::hex(&want)))
                        .with(det(&trace, vec![("expected_header", bytes_js(&header))])));
                }
                if n != sink.data.len() {
                    return Err(Fail::new("C18/byte-count", format!("returned {n}, message has {} bytes", sink.data.len())).with(det(&trace, vec![])));
                }
                // each message alone is decodable, by both readers
                let mut r1 = CountingReader { data: &sink.data, pos: 0 };
                let got = reader.read_value(&mut r1).map_err(|e| Fail::new("C18/read-value", format!("{e}")).with(det(&trace, vec![("message", bytes_js(&sink.data))])))?;
                let ok = from_lib(&sub.node, &got, &sub.env).map(|g| g.sem_eq(&v)).unwrap_or(false);
                if !ok || r1.pos != sink.data.len() {
                    return Err(Fail::new("C18/read-value-mismatch", format!("read back {} (consumed {} of {})", short(&got), r1.pos, sink.data.len())).with(det(&trace, vec![("message", bytes_js(&sink.data))])));
                }
                let mut r2 = CountingReader { data: &sink.data, pos: 0 };
                let got2 = dynserde::with_ctx(&sub.node, &sub.env, false, || reader.read_deser::<dynserde::DynOut>(&mut r2))
                    .map_err(|e| Fail::new("C18/read-deser", format!("{e}")).with(det(&trace, vec![("message", bytes_js(&sink.data))])))?;
                if !got2.0.sem_eq(&v) || r2.pos != sink.data.len() {
                    return Err(Fail::new("C18/read-deser-mismatch", format!("read_deser gave {}", got2.0.to_js().render())).with(det(&trace, vec![("message", bytes_js(&sink.data))])));
                }
                if pending_fail {
                    fail_before_success = true;
                }
                lens.push(sink.data.len());
                last_good = Some((v, sink.data.clone()));
            }
            1 => {
                if let Some(b) = rejected_value(&sub, c) {
                    trace.push(format!("write rejected-by-validation {}", short(&b)));
                    let mut sink = FaultSink::new(Plan::All);
                    if writer.write_value_ref(&b, &mut sink).is_ok() {
                        return Err(Fail::new("C18/invalid-accepted", "a value that validate() rejects was written").with(det(&trace, vec![])));
                    }
                    if !sink.data.is_empty() {
                        return Err(Fail::new("C18/rejected-wrote-bytes", format!("{} bytes reached the sink for a rejected value", sink.data.len())).with(det(&trace, vec![])));
                    }
                    pending_fail = true;
                    log.label("fail:validation");
                }
            }
            2 => {
                let v = vgen::gen_value_cfg(c, &sub.node, &sub.env, &md, &vcfg);
                let lv = to_lib(&sub.node, &v, &sub.env);
                if let Some(b) = accepted_but_refused(&sub, &lv, c) {
                    trace.push(format!("write accepted-but-refused {}", short(&b)));
                    let mut sink = FaultSink::new(Plan::All);
                    if writer.write_value_ref(&b, &mut sink).is_ok() {
                        return Err(Fail::new("C18/refused-accepted", "encoder-refused value was written").with(det(&trace, vec![])));
                    }
                    if !sink.data.is_empty() {
                        return Err(Fail::new("C18/failed-wrote-bytes", format!("{} bytes reached the sink for a failed write", sink.data.len())).with(det(&trace, vec![])));
                    }
                    pending_fail = true;
                    log.label("fail:encoder");
                }
            }
            _ => {
                // the sink fails on its first call
                let v = vgen::gen_value_cfg(c, &sub.node, &sub.env, &md, &vcfg);
                let lv = to_lib(&sub.node, &v, &sub.env);
                let mut sink = FaultSink::new(Plan::All);
                sink.fault = Some((FaultOn::Write, 0, FaultKind::Other));
                trace.push(format!("write {} into a failing sink", v.to_js().render()));
                if writer.write_value_ref(&lv, &mut sink).is_ok() {
                    return Err(Fail::new("C18/sink-error-swallowed", "write returned Ok although the sink failed").with(det(&trace, vec![])));
                }
                pending_fail = true;
                log.label("fail:sink");
            }
        }
    }
    log.label("sequence");
    if fail_before_success {
        log.label("fail_then_success");
    }
    let varied = lens.windows(2).any(|w| w[0] != w[1]);
    if varied {
        log.label("varied_lengths");
    }
    log.nontrivial = fail_before_success || varied;
    log.hash = fnv(format!("{}|{:?}", sub.text, trace).as_bytes());
    log.sample = Some(det(&trace, vec![("expected_header", bytes_js(&header))]));

    // rejection of altered / short headers, on the last good message
    if let Some((_, msg)) = last_good {
        let check_reject = |damaged: &[u8], what: String, log: &mut CaseLog| -> CaseResult {
            log.sub_evals += 1;
            for deser in [false, true] {
                let mut r = CountingReader { data: damaged, pos: 0 };
                let res: Result<(), String> = if deser {
                    dynserde::with_ctx(&sub.node, &sub.env, false, || reader.read_deser::<dynserde::DynOut>(&mut r)).map(|_| ()).map_err(|e| format!("{e}"))
                } else {
                    reader.read_value(&mut r).map(|_| ()).map_err(|e| format!("{e}"))
                };
                if res.is_ok() {
                    return Err(Fail::new("C18/foreign-message-accepted", format!("{what}: accepted")).with(det(&trace, vec![("message", bytes_js(damaged))])));
                }
                if r.pos > 10 {
                    return Err(Fail::new("C18/foreign-message-decoded", format!("{what}: {} bytes consumed, the datum was touched", r.pos)).with(det(&trace, vec![("message", bytes_js(damaged))])));
                }
            }
            Ok(())
        };
        for bit in 0..80 {
            let mut d = msg.clone();
            d[bit / 8] ^= 1 << (bit % 8);
            check_reject(&d, format!("header bit {bit} flipped"), log)?;
            log.sub_nontrivial.push(log.hash ^ (bit as u64 + 1).wrapping_mul(0x9E37_79B9_7F4A_7C15));
        }
        for len in 0..10.min(msg.len()) {
            check_reject(&msg[..len], format!("truncated to {len} bytes"), log)?;
            log.sub_nontrivial.push(log.hash ^ (1000 + len as u64).wrapping_mul(0x9E37_79B9_7F4A_7C15));
        }
        // truncations inside the datum: rejected or ... never silently accepted as complete
        for len in 10..msg.len() {
            log.sub_evals += 1;
            let mut r = CountingReader { data: &msg[..len], pos: 0 };
            if let Ok(v) = reader.read_value(&mut r) {
                return Err(Fail::new("C18/truncated-message-accepted", format!("message cut to {len} of {} bytes read as {}", msg.len(), short(&v))).with(det(&trace, vec![("message", bytes_js(&msg))])));
            }
        }
    }
    Ok(())
}

/// The typed writer configured (through its builder) with a schema of its own: the header carries
/// the fingerprint of THAT schema, a reader of that schema reads the message back, a reader of the
/// type's derived schema refuses it.
fn specific_with_schema<T: crate::corpus::Corpus>(name: &str, c: &mut Choices, log: &mut CaseLog) -> CaseResult {
    use apache_avro::{Schema, SpecificSingleObjectWriter};
    let derived = T::get_schema();
    let text = serde_json::to_string(&derived).map_err(|e| Fail::new("HARNESS/derived-json", format!("{e}")))?;
    let mut js = json::parse_strict(&text).map_err(|e| Fail::new("HARNESS/derived-json", format!("{e:?}")))?;
    // same shape under another name: another fingerprint
    let alt_name = ["AltName", "verif.alt.Other", "Z"][c.pick(3)];
    if let Js::Obj(items) = &mut js {
        items.retain(|(k, _)| k != "namespace");
        for (k, v) in items.iter_mut() {
            if k == "name" {
                *v = Js::str(alt_name);
            }
        }
    } else {
        return Ok(());
    }
    let alt_text = js.render();
    let alt = Schema::parse_str(&alt_text).map_err(|e| Fail::new("HARNESS/alt-schema", format!("{e}: {alt_text}")))?;
    let header = refpcf::single_object_header(&js).map_err(|e| Fail::new("HARNESS/refpcf", e))?;
    let det = |extra: Vec<(&str, Js)>| {
        let mut items = vec![("type", Js::str(name)), ("configured_schema", Js::Str(alt_text.clone())), ("derived_schema", Js::Str(text.clone()))];
        items.extend(extra);
        Js::obj(items)
    };
    let tbs = [None, Some(1usize), Some(64)][c.pick(3)];
    let writer = SpecificSingleObjectWriter::<T>::builder()
        .resolved(alt.clone())
        .map_err(|e| Fail::new(format!("C18/specific/writer-build/{name}"), format!("{e}")).with(det(vec![])))?
        .maybe_target_block_size(tbs)
        .build();
    let reader_alt = GenericSingleObjectReader::builder().schema(alt.clone()).build().map_err(|e| Fail::new("C18/reader-new", format!("{e}")))?;
    let reader_derived = GenericSingleObjectReader::builder().schema(derived.clone()).build().map_err(|e| Fail::new("C18/reader-new", format!("{e}")))?;
    let plain = GenericDatumReaderAlias::builder(&alt).build().map_err(|e| Fail::new("C18/reader-new", format!("{e}")))?;
    let n = 1 + c.pick(3);
    log.label("specific");
    log.nontrivial = true;
    log.hash = fnv(format!("S|{name}|{alt_name}|{tbs:?}|{}", c.consumed()).as_bytes());
    for _ in 0..n {
        let v = T::arb(c);
        let mut msg = vec![];
        let count = writer.write_ref(&v, &mut msg).map_err(|e| Fail::new(format!("C18/specific/write-error/{name}"), format!("{e}")).with(det(vec![])))?;
        log.sub_evals += 1;
        if count != msg.len() {
            return Err(Fail::new(format!("C18/specific/byte-count/{name}"), format!("write_ref returned {count}, emitted {}", msg.len())).with(det(vec![("message", bytes_js(&msg))])));
        }
        if msg.len() < 10 || msg[..10] != header[..] {
            return Err(Fail::new(
                format!("C18/specific/header-not-of-configured-schema/{name}"),
                format!("the message starts with {} but C3 01 + CRC-64-AVRO of the writer's schema is {}", json::hex(&msg[..msg.len().min(10)]), json::hex(&header)),
            )
            .with(det(vec![("message", bytes_js(&msg))])));
        }
        // the datum is the encoding under the configured schema, and a reader of that schema accepts the message
        let mut body: &[u8] = &msg[10..];
        let direct = plain.read_value(&mut body).map_err(|e| Fail::new(format!("C18/specific/datum-unreadable/{name}"), format!("{e}")).with(det(vec![("message", bytes_js(&msg))])))?;
        if !body.is_empty() {
            return Err(Fail::new(format!("C18/specific/datum-trailing/{name}"), format!("{} bytes after the datum", body.len())).with(det(vec![("message", bytes_js(&msg))])));
        }
        let via_reader = reader_alt.read_value(&mut &msg[..]).map_err(|e| Fail::new(format!("C18/specific/own-reader-rejects/{name}"), format!("{e}")).with(det(vec![("message", bytes_js(&msg))])))?;
        if format!("{via_reader:?}") != format!("{direct:?}") && !matches!(via_reader, apache_avro::types::Value::Map(_)) {
            // (values with maps print in hash order; their equality is covered by the datum checks of C01/C16)
            let has_map = format!("{direct:?}").contains("Map(");
            if !has_map {
                return Err(Fail::new(format!("C18/specific/reader-differs/{name}"), format!("{} vs {}", short(&via_reader), short(&direct))).with(det(vec![("message", bytes_js(&msg))])));
            }
        }
        if reader_derived.read_value(&mut &msg[..]).is_ok() {
            return Err(Fail::new(format!("C18/specific/foreign-reader-accepts/{name}"), "a reader of another schema (another fingerprint) accepted the message").with(det(vec![("message", bytes_js(&msg))])));
        }
    }
    Ok(())
}

use apache_avro::reader::datum::GenericDatumReader as GenericDatumReaderAlias;

/// `SpecificSingleObjectWriter::write_value` (the generic-value route of the typed writer): the
/// documented count is the number of bytes written including the header.
fn specific_write_value(c: &mut Choices, log: &mut CaseLog) -> CaseResult {
    use crate::corpus::{Corpus, Inner};
    use apache_avro::SpecificSingleObjectWriter;
    let writer = SpecificSingleObjectWriter::<Inner>::new().map_err(|e| Fail::new("C18/specific/writer-new", format!("{e}")))?;
    log.label("specific_write_value");
    log.nontrivial = true;
    for _ in 0..3 {
        let v = Inner::arb(c);
        let mut by_value = vec![];
        let n = writer.write_value(v.clone(), &mut by_value).map_err(|e| Fail::new("C18/specific/write-value-error", format!("{e}")))?;
        let mut by_ref = vec![];
        writer.write_ref(&v, &mut by_ref).map_err(|e| Fail::new("C18/specific/write-error/Inner", format!("{e}")))?;
        log.sub_evals += 1;
        let d = Js::obj(vec![("value", Js::Str(format!("{v:?}"))), ("message", bytes_js(&by_value))]);
        if n != by_value.len() {
            return Err(Fail::new("C18/specific/byte-count/write_value", format!("write_value returned {n}, emitted {} bytes", by_value.len())).with(d));
        }
        if by_value != by_ref {
            return Err(Fail::new("C18/specific/write-value-differs-from-write-ref", format!("{} vs {}", json::hex(&by_value), json::hex(&by_ref))).with(d));
        }
    }
    Ok(())
}

pub fn case_specific(c: &mut Choices, log: &mut CaseLog) -> CaseResult {
    use crate::corpus::*;
    match c.pick(7) {
        6 => specific_write_value(c, log),
        0 => specific_with_schema::<Inner>("Inner", c, log),
        1 => specific_with_schema::<Scalars>("Scalars", c, log),
        2 => specific_with_schema::<Seqs>("Seqs", c, log),
        3 => specific_with_schema::<Plain>("Plain", c, log),
        4 => specific_with_schema::<Opts>("Opts", c, log),
        _ => specific_with_schema::<CharHolder>("CharHolder", c, log),
    }
}

pub fn dispatch(campaign: &str, c: &mut Choices, log: &mut CaseLog) -> Option<CaseResult> {
    match campaign {
        "specific" => Some(case_specific(c, log)),
        "sequence" => Some(case_sequence(c, log)),
        _ => None,
    }
}

pub fn run(mut chk: Check) -> ! {
    if let Err(e) = refpcf::self_test() {
        infra(&format!("refpcf self-test failed: {e}"));
    }
    if let Err(e) = refbin::self_test() {
        infra(&format!("refbin self-test failed: {e}"));
    }
    chk.rule = "generated schema (no logical types: their canonical form is C12's known finding) x sequence of 2-11 writes through ONE GenericSingleObjectWriter: good values (short and long datums, perfect and short-write sinks) interleaved with values rejected by validation, values the encoder refuses, and failing sinks; \
        every successful call must emit exactly C3 01 || LE64(CRC-64-AVRO(reference canonical form)) || reference datum encoding and read back alone through read_value and read_deser; then all 80 header bit flips, all truncations below 10 bytes (must be rejected having consumed <=10 bytes) and every truncation inside the datum. \
        Non-trivial: a failure before a success, or consecutive messages of different length; every alteration counts."
        .into();
    chk.assumptions = vec!["reference canonical form / CRC-64-AVRO (refpcf) checked against published vectors at start-up".into()];
    chk.replay_files(dispatch);
    let n = chk.scale(100_000, 1_000_000);
    chk.campaign(CampaignCfg::new("sequence", n).len(0, 700), case_sequence);
    chk.require_label("sequence:fail_then_success", "sequence:sequence", 5.0);
    chk.campaign(CampaignCfg::new("specific", n / 5).len(0, 300), case_specific);
    chk.finish()
}
