//! C01 — datum round trip.

use super::common::*;
use crate::choices::{fnv, Choices};
use crate::json::Js;
use crate::runner::*;
use crate::sgen::SgenCfg;
use crate::spec::*;
use crate::tolib::{describe, from_lib, short, to_lib};
use crate::vgen;
use apache_avro::reader::datum::GenericDatumReader;
use apache_avro::writer::datum::GenericDatumWriter;

pub fn case_roundtrip(c: &mut Choices, log: &mut CaseLog) -> CaseResult {
    let cfg = SgenCfg::full();
    let Some(sub) = gen_subject(c, &cfg, log)? else {
        return Ok(());
    };
    roundtrip_subject(c, log, &sub)
}

pub fn roundtrip_subject(c: &mut Choices, log: &mut CaseLog, sub: &Subject) -> CaseResult {
    if std::env::var("VERIF_TRACE").is_ok() {
        eprintln!("TRACE {}", sub.text);
    }
    let k = 1 + c.weighted(&[6, 2, 1, 1]);
    let md = min_depths(&sub.env);
    let vcfg = vgen::VgenCfg::normal();
    let values: Vec<V> = (0..k).map(|_| vgen::gen_value_cfg(c, &sub.node, &sub.env, &md, &vcfg)).collect();
    let tl = c.pick(5);
    let tail = c.bytes(tl);
    log.label("case");
    log.label(&format!("root:{}", sub.node.kind()));
    if k > 1 {
        log.label("concatenated");
    }
    log.nontrivial = k > 1 || values.iter().any(|v| vgen::nontrivial(&sub.node, v, &sub.env));
    log.hash = fnv(format!("{}|{:?}", sub.text, values).as_bytes());
    log.sample = Some(describe(&sub.text, &values[0]));

    let mut libvals: Vec<_> = values.iter().map(|v| to_lib(&sub.node, v, &sub.env)).collect();
    // a record value names its fields: their order in the value is free (one case in four presents
    // them in another order; derived from the case, no extra choice is drawn)
    let order_seed = fnv(format!("{}|{:?}|order", sub.text, values).as_bytes());
    if order_seed % 4 == 0 {
        for lv in libvals.iter_mut() {
            permute_records(lv, order_seed);
        }
        log.label("record_fields_in_other_order");
    }
    let mut encodings: Vec<Vec<u8>> = vec![];
    for validate in [true, false] {
        let w = GenericDatumWriter::builder(&sub.schema)
            .validate(validate)
            .build()
            .map_err(|e| Fail::new("C01/writer-build", format!("{e}")).with(detail(sub, &values[0], vec![])))?;
        let mut buf = vec![];
        for (i, lv) in libvals.iter().enumerate() {
            let before = buf.len();
            let n = w.write_value_ref(&mut buf, lv).map_err(|e| {
                Fail::new(
                    format!("C01/encode-error/{}", if validate { "validating" } else { "unvalidated" }),
                    format!("conforming value refused: {e}"),
                )
                .with(detail(sub, &values[i], vec![("lib_value", Js::Str(short(lv)))]))
            })?;
            let _ = (n, before);
        }
        encodings.push(buf);
    }
    let multi = values.iter().any(|v| v.has_multi_map());
    if !multi && encodings[0] != encodings[1] {
        return Err(Fail::new("C01/validate-changes-bytes", "bytes differ with and without validation").with(detail(
            sub,
            &values[0],
            vec![("validated", bytes_js(&encodings[0])), ("unvalidated", bytes_js(&encodings[1]))],
        )));
    }
    let reader = GenericDatumReader::builder(&sub.schema)
        .build()
        .map_err(|e| Fail::new("C01/reader-build", format!("{e}")))?;
    for (which, enc) in encodings.iter().enumerate() {
        let mut data = enc.clone();
        data.extend_from_slice(&tail);
        let mut slice: &[u8] = &data;
        for (i, v) in values.iter().enumerate() {
            let got = reader.read_value(&mut slice).map_err(|e| {
                Fail::new("C01/decode-error", format!("decoding own encoding failed (value {i} of {k}, encoding {which}): {e}"))
                    .with(detail(sub, v, vec![("bytes", bytes_js(enc))]))
            })?;
            let back = from_lib(&sub.node, &got, &sub.env).map_err(|m| {
                Fail::new("C01/decoded-nonconforming", m).with(detail(sub, v, vec![("bytes", bytes_js(enc)), ("got", Js::Str(short(&got)))]))
            })?;
            if !back.sem_eq(v) {
                return Err(Fail::new("C01/value-mismatch", format!("value {i} of {k} came back different")).with(detail(
                    sub,
                    v,
                    vec![("bytes", bytes_js(enc)), ("got", Js::Str(back.to_js().render()))],
                )));
            }
        }
        if slice != &tail[..] {
            return Err(Fail::new(
                "C01/consumption",
                format!("after {k} reads {} bytes remain, expected the {}-byte tail", slice.len(), tail.len()),
            )
            .with(detail(sub, &values[0], vec![("bytes", bytes_js(enc))])));
        }
    }
    Ok(())
}

fn permute_records(v: &mut apache_avro::types::Value, seed: u64) {
    use apache_avro::types::Value;
    match v {
        Value::Record(items) => {
            if items.len() >= 2 {
                let k = (seed % items.len() as u64) as usize;
                if seed & 0x100 == 0 { items.rotate_left(k.max(1)) } else { items.reverse() }
            }
            for (_, x) in items.iter_mut() {
                permute_records(x, seed.rotate_left(7));
            }
        }
        Value::Array(a) => a.iter_mut().for_each(|x| permute_records(x, seed.rotate_left(3))),
        Value::Map(m) => m.values_mut().for_each(|x| permute_records(x, seed.rotate_left(5))),
        Value::Union(_, x) => permute_records(x, seed.rotate_left(11)),
        _ => {}
    }
}

pub fn dispatch(campaign: &str, c: &mut Choices, log: &mut CaseLog) -> Option<CaseResult> {
    match campaign {
        "roundtrip" => Some(case_roundtrip(c, log)),
        _ => None,
    }
}

pub fn run(mut chk: Check) -> ! {
    chk.rule = "proptest choice vectors -> (schema from full grammar incl. logical types, namespaces, references, recursion; 1-4 conforming edge-biased values; random sentinel tail). \
        Non-trivial: >1 concatenated value or a value with a multi-byte varint, non-first union branch, named reference, logical type, non-empty array/map, depth>=2, non-ASCII/long string. \
        Distinct by hash of (schema text, values)."
        .into();
    chk.assumptions = vec![
        "harness to_lib/from_lib conversion is correct (strict, schema-directed)".into(),
        "generated values are canonical conforming values (decimals fit precision/width, real UUIDs, big-decimal scale within +-40)".into(),
    ];
    chk.replay_files(dispatch);
    let n = chk.scale(600_000, 4_000_000);
    chk.campaign(CampaignCfg::new("roundtrip", n), case_roundtrip);
    chk.require_label("roundtrip:case", "roundtrip:case", 0.0);
    let rejected = *chk.labels.get("roundtrip:schema_rejected").unwrap_or(&0);
    let cases = *chk.labels.get("roundtrip:case").unwrap_or(&0);
    chk.extra.push(("schema_rejected".into(), Js::int(rejected as i128)));
    if rejected * 100 > (cases + rejected).max(1) {
        infra(&format!("{rejected} generated schemas rejected by the parser (>1%): see C11"));
    }
    chk.finish()
}
