//! C07 — validation accepted => written readably (in canonical form); rejected => nothing written.

use super::c03::{read_back, schema_cfg};
use super::common::*;
use crate::choices::{fnv, Choices};
use crate::json::Js;
use crate::refbin;
use crate::runner::*;
use crate::sgen::SgenCfg;
use crate::spec::*;
use crate::tolib::{from_lib, short, to_lib};
use crate::vgen;
use apache_avro::reader::datum::GenericDatumReader;
use apache_avro::types::Value;
use apache_avro::writer::datum::GenericDatumWriter;
use apache_avro::{Duration, GenericSingleObjectWriter, Writer};
use std::collections::HashMap;

/// A change of representation applied at one position of a canonical value.
#[derive(Clone, Debug, PartialEq)]
pub struct Form {
    pub name: &'static str,
    /// kind of the schema node it was applied at
    pub at: String,
}

struct Mutator<'a, 'c, 'd> {
    env: &'a Env,
    c: &'c mut Choices<'d>,
    /// number of candidate positions still to skip before applying
    skip: usize,
    applied: Option<Form>,
    near_miss: bool,
    /// apply exactly this form at the first position offering it
    want: Option<Form>,
    /// offer the bare-*-in-union forms
    allow_bare: bool,
    /// near-miss mode: offer the whole palette of value kinds instead of the hand-picked forms
    cross: bool,
    /// where the walk currently is / where the form was applied
    path: Vec<Step>,
    applied_path: Vec<Step>,
}

/// One step from a value to a component of it.
#[derive(Clone, Debug, PartialEq)]
pub enum Step {
    Field(String),
    Item(usize),
    Key(String),
    Branch(usize),
}

/// One value of every kind `types::Value` has.
fn cross_palette() -> Vec<(&'static str, Value)> {
    use apache_avro::{Days, Decimal, Millis, Months};
    vec![
        ("cross:null", Value::Null),
        ("cross:boolean", Value::Boolean(true)),
        ("cross:int", Value::Int(1)),
        ("cross:long", Value::Long(1)),
        ("cross:long-big", Value::Long(1 << 40)),
        ("cross:float", Value::Float(1.0)),
        ("cross:double", Value::Double(1.0)),
        ("cross:bytes", Value::Bytes(vec![1])),
        ("cross:bytes16", Value::Bytes(vec![7; 16])),
        ("cross:string", Value::String("a".into())),
        ("cross:string-uuid", Value::String("00000000-0000-0000-0000-000000000001".into())),
        ("cross:fixed1", Value::Fixed(1, vec![1])),
        ("cross:fixed12", Value::Fixed(12, vec![1; 12])),
        ("cross:fixed16", Value::Fixed(16, vec![1; 16])),
        ("cross:enum", Value::Enum(0, "A".into())),
        ("cross:array", Value::Array(vec![])),
        ("cross:array1", Value::Array(vec![Value::Int(1)])),
        ("cross:map", Value::Map(HashMap::new())),
        ("cross:record", Value::Record(vec![])),
        ("cross:date", Value::Date(1)),
        ("cross:time-millis", Value::TimeMillis(1)),
        ("cross:time-micros", Value::TimeMicros(1)),
        ("cross:timestamp-millis", Value::TimestampMillis(1)),
        ("cross:timestamp-micros", Value::TimestampMicros(1)),
        ("cross:timestamp-nanos", Value::TimestampNanos(1)),
        ("cross:local-timestamp-millis", Value::LocalTimestampMillis(1)),
        ("cross:local-timestamp-micros", Value::LocalTimestampMicros(1)),
        ("cross:local-timestamp-nanos", Value::LocalTimestampNanos(1)),
        ("cross:decimal", Value::Decimal(Decimal::from(vec![1u8]))),
        ("cross:big-decimal", Value::BigDecimal(bigdecimal::BigDecimal::from(1))),
        ("cross:uuid", Value::Uuid(uuid::Uuid::from_bytes([1; 16]))),
        ("cross:duration", Value::Duration(Duration::new(Months::new(1), Days::new(1), Millis::new(1)))),
        ("cross:union0-null", Value::Union(0, Box::new(Value::Null))),
    ]
}

fn duration_bytes(d: &Duration) -> Vec<u8> {
    let mut b = vec![];
    b.extend_from_slice(&u32::from(d.months()).to_le_bytes());
    b.extend_from_slice(&u32::from(d.days()).to_le_bytes());
    b.extend_from_slice(&u32::from(d.millis()).to_le_bytes());
    b
}

impl<'a, 'c, 'd> Mutator<'a, 'c, 'd> {
    /// candidate forms at this (node, value) position
    fn candidates(&mut self, node: &SNode, v: &Value) -> Vec<(&'static str, Value)> {
        let mut out: Vec<(&'static str, Value)> = vec![];
        if self.near_miss && self.cross {
            // any value kind at any position: what validation accepts must be written readably
            for (name, pv) in cross_palette() {
                if std::mem::discriminant(&pv) != std::mem::discriminant(v) {
                    out.push((name, pv));
                }
            }
            return out;
        }
        if self.near_miss {
            match (&node.ty, v) {
                (SType::Int, Value::Int(x)) if node.logical.is_none() => {
                    out.push(("long-for-int", Value::Long(*x as i64)));
                    out.push(("boolean-for-number", Value::Boolean(true)));
                }
                (SType::Long, _) if node.logical.is_none() => out.push(("boolean-for-number", Value::Boolean(true))),
                (SType::Float, Value::Float(x)) => out.push(("double-for-float", Value::Double(*x as f64))),
                (SType::Boolean, Value::Boolean(b)) => out.push(("int-for-boolean", Value::Int(*b as i32))),
                (SType::Bytes, Value::Bytes(b)) if node.logical.is_none() => out.push(("string-for-bytes", Value::String(String::from_utf8_lossy(b).to_string()))),
                (SType::Null, Value::Null) => out.push(("int-for-null", Value::Int(0))),
                (SType::Fixed(_, size), Value::Fixed(..)) => out.push(("fixed-wrong-length", Value::Fixed(size + 1, vec![0; size + 1]))),
                (SType::Enum(..), Value::Enum(..)) => out.push(("unknown-symbol-string", Value::String("__nope__".into()))),
                (SType::Record(..), Value::Record(items)) => {
                    let mut it = items.clone();
                    it.push(("__extra__".into(), Value::Null));
                    out.push(("extra-field", Value::Record(it)));
                    if let Some(pos) = (0..items.len()).find(|_| true) {
                        let mut it = items.clone();
                        it.remove(pos);
                        out.push(("missing-field", Value::Record(it)));
                    }
                }
                (SType::Union(bs), Value::Union(i, inner)) if bs.len() >= 2 => {
                    let j = (*i as usize + 1) % bs.len();
                    out.push(("union-index-mismatch", Value::Union(j as u32, inner.clone())));
                    out.push(("union-index-out-of-range", Value::Union(bs.len() as u32 + 3, inner.clone())));
                }
                (SType::String, Value::Uuid(u)) => {
                    let _ = u;
                    out.push(("short-uuid-string", Value::String("0123".into())));
                }
                (SType::String, Value::String(_)) => out.push(("int-for-string", Value::Int(1))),
                (SType::Array(_), Value::Array(_)) => out.push(("map-for-array", Value::Map(HashMap::new()))),
                _ => {}
            }
            return out;
        }
        match (&node.logical, &node.ty, v) {
            (None, SType::Long, Value::Long(x)) if i32::try_from(*x).is_ok() => out.push(("int-for-long", Value::Int(*x as i32))),
            (Some(Logical::Date), _, Value::Date(x)) => out.push(("int-for-date", Value::Int(*x))),
            (Some(Logical::TimeMillis), _, Value::TimeMillis(x)) => out.push(("int-for-time-millis", Value::Int(*x))),
            (Some(Logical::TimeMicros), _, Value::TimeMicros(x)) => out.push(("long-for-time-micros", Value::Long(*x))),
            (Some(Logical::TimestampMillis), _, Value::TimestampMillis(x)) => out.push(("long-for-timestamp", Value::Long(*x))),
            (Some(Logical::TimestampMicros), _, Value::TimestampMicros(x)) => out.push(("long-for-timestamp", Value::Long(*x))),
            (Some(Logical::LocalTimestampMillis), _, Value::LocalTimestampMillis(x)) => out.push(("long-for-timestamp", Value::Long(*x))),
            (Some(Logical::LocalTimestampMicros), _, Value::LocalTimestampMicros(x)) => out.push(("long-for-timestamp", Value::Long(*x))),
            (None, SType::Double, Value::Double(x)) => out.push(("float-for-double", Value::Float(*x as f32))),
            (None, SType::Enum(_, symbols, default), Value::Enum(i, s)) => {
                out.push(("string-for-enum", Value::String(s.clone())));
                if default.is_some() {
                    out.push(("enum-index-out-of-range-with-default", Value::Enum(symbols.len() as u32 + *i, "__nope__".into())));
                }
            }
            (None, SType::Fixed(..), Value::Fixed(_, b)) => out.push(("bytes-for-fixed", Value::Bytes(b.clone()))),
            (Some(Logical::Decimal { .. }), SType::Bytes, Value::Decimal(d)) => {
                if let Ok(b) = <Vec<u8>>::try_from(d) {
                    out.push(("bytes-for-decimal", Value::Bytes(b.clone())));
                    out.push(("fixed-for-decimal", Value::Fixed(b.len(), b)));
                }
            }
            (Some(Logical::Decimal { .. }), SType::Fixed(..), Value::Decimal(d)) => {
                if let Ok(b) = <Vec<u8>>::try_from(d) {
                    out.push(("bytes-for-decimal", Value::Bytes(b.clone())));
                    out.push(("fixed-for-decimal", Value::Fixed(b.len(), b)));
                }
            }
            (Some(Logical::Duration), _, Value::Duration(d)) => out.push(("fixed-for-duration", Value::Fixed(12, duration_bytes(d)))),
            (Some(Logical::Uuid), SType::Fixed(..), Value::Uuid(u)) => out.push(("fixed-for-uuid", Value::Fixed(16, u.as_bytes().to_vec()))),
            (Some(Logical::Uuid), SType::Bytes, Value::Uuid(u)) => out.push(("bytes-for-uuid", Value::Bytes(u.as_bytes().to_vec()))),
            (Some(Logical::Uuid), SType::String, Value::Uuid(u)) => {
                out.push(("string-for-uuid", Value::String(u.to_string())));
                out.push(("non-uuid-string-for-uuid", Value::String("this is certainly not a uuid but it is long".into())));
            }
            (None, SType::Record(_, fields), Value::Record(items)) => {
                out.push(("map-for-record", Value::Map(items.iter().cloned().collect())));
                // a field given under one of its aliases (validation and the encoder look fields up by alias too)
                if let Some((pos, alias)) = items.iter().enumerate().find_map(|(i, (k, _))| fields.iter().find(|f| f.name == *k).and_then(|f| f.aliases.first()).map(|a| (i, a.clone()))) {
                    if !items.iter().any(|(k, _)| *k == alias) && !fields.iter().any(|f| f.name == alias) {
                        let mut it = items.clone();
                        it[pos].0 = alias;
                        out.push(("field-by-alias", Value::Record(it)));
                    }
                }
                if items.len() >= 2 {
                    let mut it = items.clone();
                    it.reverse();
                    out.push(("record-fields-reordered", Value::Record(it)));
                }
                if let Some(f) = fields.iter().find(|f| matches!(&deref(&f.node, self.env).ty, SType::Union(bs) if bs.iter().any(|b| matches!(b.ty, SType::Null)))) {
                    if let Some(pos) = items.iter().position(|(k, _)| *k == f.name) {
                        let mut it = items.clone();
                        it.remove(pos);
                        out.push(("record-omits-nullable-field", Value::Record(it)));
                    }
                }
            }
            (None, SType::Union(_), Value::Union(_, inner)) if self.allow_bare => {
                let name = match **inner {
                    Value::Null => "bare-null-in-union",
                    Value::Record(_) => "bare-record-in-union",
                    _ => "bare-value-in-union",
                };
                out.push((name, (**inner).clone()));
            }
            _ => {}
        }
        out
    }

    fn walk(&mut self, node: &SNode, v: &Value) -> Value {
        let node = deref(node, self.env);
        if self.applied.is_some() {
            return v.clone();
        }
        let cands = self.candidates(node, v);
        if let Some(w) = self.want.clone() {
            if w.at == node.lkind() {
                if let Some((name, nv)) = cands.into_iter().find(|(n, _)| *n == w.name) {
                    self.applied = Some(Form { name, at: node.lkind() });
                    self.applied_path = self.path.clone();
                    return nv;
                }
            }
        } else if !cands.is_empty() {
            if self.skip == 0 {
                let i = self.c.pick(cands.len());
                let (name, nv) = cands.into_iter().nth(i).unwrap();
                self.applied = Some(Form { name, at: node.lkind() });
                self.applied_path = self.path.clone();
                return nv;
            }
            self.skip -= 1;
        }
        match (&node.ty, v) {
            (SType::Array(items), Value::Array(a)) => Value::Array(
                a.iter()
                    .enumerate()
                    .map(|(i, x)| {
                        self.path.push(Step::Item(i));
                        let r = self.walk(items, x);
                        self.path.pop();
                        r
                    })
                    .collect(),
            ),
            (SType::Map(values), Value::Map(m)) => {
                let mut keys: Vec<&String> = m.keys().collect();
                keys.sort();
                let mut out = HashMap::new();
                for k in keys {
                    self.path.push(Step::Key(k.clone()));
                    out.insert(k.clone(), self.walk(values, &m[k]));
                    self.path.pop();
                }
                Value::Map(out)
            }
            (SType::Union(bs), Value::Union(i, inner)) if (*i as usize) < bs.len() => {
                self.path.push(Step::Branch(*i as usize));
                let r = Value::Union(*i, Box::new(self.walk(&bs[*i as usize], inner)));
                self.path.pop();
                r
            }
            (SType::Record(_, fields), Value::Record(items)) => Value::Record(
                items
                    .iter()
                    .map(|(n, x)| match fields.iter().find(|f| f.name == *n) {
                        Some(f) => {
                            self.path.push(Step::Field(n.clone()));
                            let r = (n.clone(), self.walk(&f.node, x));
                            self.path.pop();
                            r
                        }
                        None => (n.clone(), x.clone()),
                    })
                    .collect(),
            ),
            _ => v.clone(),
        }
    }
}

fn count_positions(node: &SNode, v: &Value, env: &Env, near: bool, allow_bare: bool, cross: bool, c: &mut Choices) -> usize {
    // dry run with an unreachable skip count, counting candidates
    let mut m = Mutator { env, c, skip: usize::MAX, applied: None, near_miss: near, want: None, allow_bare, cross, path: vec![], applied_path: vec![] };
    m.walk(node, v);
    usize::MAX - m.skip
}

/// Apply one form change at a random position. None if the value offers no position.
pub fn apply_form(node: &SNode, v: &Value, env: &Env, near: bool, allow_bare: bool, c: &mut Choices) -> Option<(Value, Form)> {
    apply_form_at(node, v, env, near, allow_bare, c).map(|(v, f, _)| (v, f))
}

/// As `apply_form`, also telling where the form was applied.
pub fn apply_form_at(node: &SNode, v: &Value, env: &Env, near: bool, allow_bare: bool, c: &mut Choices) -> Option<(Value, Form, Vec<Step>)> {
    // half of the near-miss cases draw from the palette of all value kinds
    let cross = near && c.bool();
    let n = count_positions(node, v, env, near, allow_bare, cross, c);
    if n == 0 {
        return None;
    }
    let skip = c.pick(n);
    let mut m = Mutator { env, c, skip, applied: None, near_miss: near, want: None, allow_bare, cross, path: vec![], applied_path: vec![] };
    let out = m.walk(node, v);
    let path = m.applied_path.clone();
    m.applied.map(|f| (out, f, path))
}

// ---------------------------------------------------------------- the library's own branch choice

/// The component of a library schema reached by `path`, with the namespace in force there.
fn lib_schema_at<'s>(schema: &'s apache_avro::Schema, names: &'s apache_avro::schema::NamesRef<'s>, path: &[Step], ns: Option<String>) -> Option<(&'s apache_avro::Schema, Option<String>)> {
    use apache_avro::Schema as S;
    let (schema, ns) = match schema {
        S::Ref { name } => {
            let full = name.fully_qualified_name(ns.as_deref()).into_owned();
            let target = names.get(&full)?;
            let ns2 = full.namespace().map(|x| x.to_string());
            (*target, ns2)
        }
        other => (other, ns),
    };
    let Some((step, rest)) = path.split_first() else {
        return Some((schema, ns));
    };
    match (schema, step) {
        (S::Record(r), Step::Field(n)) => {
            let ns2 = r.name.namespace().map(|x| x.to_string()).or(ns);
            let idx = *r.lookup.get(n)?;
            lib_schema_at(&r.fields[idx].schema, names, rest, ns2)
        }
        (S::Array(a), Step::Item(_)) => lib_schema_at(&a.items, names, rest, ns),
        (S::Map(m), Step::Key(_)) => lib_schema_at(&m.types, names, rest, ns),
        (S::Union(u), Step::Branch(i)) => lib_schema_at(u.variants().get(*i)?, names, rest, ns),
        _ => None,
    }
}

fn value_at<'v>(v: &'v Value, path: &[Step]) -> Option<&'v Value> {
    let Some((step, rest)) = path.split_first() else {
        return Some(v);
    };
    match (v, step) {
        (Value::Record(items), Step::Field(n)) => value_at(&items.iter().find(|(k, _)| k == n)?.1, rest),
        (Value::Array(a), Step::Item(i)) => value_at(a.get(*i)?, rest),
        (Value::Map(m), Step::Key(k)) => value_at(m.get(k)?, rest),
        (Value::Union(i, inner), Step::Branch(j)) if *i as usize == *j => value_at(inner, rest),
        _ => None,
    }
}

/// A bare value sits at `path` (a union position). Validation accepted it because
/// `UnionSchema::find_schema_with_known_schemata` found a branch; the encoder has to write the value
/// under that very branch. Returns a description of the disagreement, if any: the bytes written for
/// the bare value differ from the bytes written for the same value wrapped as `Union(branch, value)`.
pub fn bare_branch_disagreement(sub: &Subject, val: &Value, path: &[Step]) -> Option<String> {
    let resolved = apache_avro::schema::ResolvedSchema::try_from(&sub.schema).ok()?;
    let names = resolved.get_names();
    let (at, ns) = lib_schema_at(&sub.schema, names, path, None)?;
    let apache_avro::Schema::Union(u) = at else {
        return None;
    };
    let bare = value_at(val, path)?;
    if matches!(bare, Value::Union(..)) {
        return None;
    }
    let (index, branch) = u.find_schema_with_known_schemata(bare, Some(names), ns.as_deref())?;
    // for arrays and maps the library promises that the matched branch really fits the value
    // ("Maps and arrays need to be checked if they actually match the value")
    if matches!(bare, Value::Array(_) | Value::Map(_)) && matches!(branch, apache_avro::Schema::Array(_) | apache_avro::Schema::Map(_)) {
        let schemata: Vec<&apache_avro::Schema> = vec![&sub.schema];
        if let Err(e) = bare.clone().resolve_schemata(branch, schemata) {
            return Some(format!("validation matches the bare value {} with branch {index} of the union although it does not resolve against that branch: {e}", short(bare)));
        }
    }
    let w = GenericDatumWriter::builder(&sub.schema).validate(false).build().ok()?;
    let bytes = w.write_value_to_vec(val.clone()).ok()?;
    // which branch did the encoder write? (read with the reference decoder; byte comparison would
    // trip over the free order of map entries)
    let (decoded, _) = refbin::decode(&sub.node, &sub.env, &bytes).ok()?;
    let written = spec_value_at(&sub.node, &decoded, path, &sub.env)?;
    let V::Union(wi, _) = written else {
        return None;
    };
    if *wi != index {
        Some(format!("validation matches the bare value {} with branch {index} of the union, but the encoder wrote it under branch {wi} (datum {})", short(bare), crate::json::hex(&bytes)))
    } else {
        None
    }
}

fn spec_value_at<'v>(node: &SNode, v: &'v V, path: &[Step], env: &Env) -> Option<&'v V> {
    let node = deref(node, env);
    let Some((step, rest)) = path.split_first() else {
        return Some(v);
    };
    match (&node.ty, v, step) {
        (SType::Record(_, fields), V::Record(items), Step::Field(n)) => {
            let i = fields.iter().position(|f| f.name == *n)?;
            spec_value_at(&fields[i].node, items.get(i)?, rest, env)
        }
        (SType::Array(items), V::Array(a), Step::Item(i)) => spec_value_at(items, a.get(*i)?, rest, env),
        (SType::Map(values), V::Map(m), Step::Key(k)) => spec_value_at(values, &m.iter().find(|(k2, _)| k2 == k)?.1, rest, env),
        (SType::Union(bs), V::Union(i, inner), Step::Branch(j)) if i == j => spec_value_at(bs.get(*i)?, inner, rest, env),
        _ => None,
    }
}

// ---------------------------------------------------------------- canonicalisation (the harness's own)

/// Is `got` (canonical) a value that the possibly non-canonical `val` denotes under `node`?
/// A bare value in a union position may denote any branch that matches it.
pub fn denotes(node: &SNode, val: &Value, got: &V, env: &Env) -> bool {
    let node = deref(node, env);
    if let SType::Union(bs) = &node.ty {
        let V::Union(gi, ginner) = got else {
            return false;
        };
        let Some(b) = bs.get(*gi) else {
            return false;
        };
        return match val {
            Value::Union(i, inner) => *i as usize == *gi && denotes(b, inner, ginner, env),
            bare => denotes(b, bare, ginner, env),
        };
    }
    if let Ok(v) = from_lib(node, val, env) {
        return v.sem_eq(got);
    }
    match (&node.logical, &node.ty, val, got) {
        (None, SType::Long, Value::Int(x), V::Long(g)) => *x as i64 == *g,
        (Some(Logical::Date | Logical::TimeMillis), _, Value::Int(x), V::Int(g)) => x == g,
        (Some(Logical::TimeMicros | Logical::TimestampMillis | Logical::TimestampMicros | Logical::TimestampNanos | Logical::LocalTimestampMillis | Logical::LocalTimestampMicros | Logical::LocalTimestampNanos), _, Value::Long(x), V::Long(g)) => x == g,
        (None, SType::Double, Value::Float(x), V::Double(g)) => (*x as f64).to_bits() == *g,
        (None, SType::Enum(_, symbols, _), Value::String(s), V::Enum(g)) => symbols.get(*g) == Some(s),
        (None, SType::Enum(_, symbols, Some(d)), Value::Enum(i, _), V::Enum(g)) if *i as usize >= symbols.len() => symbols.get(*g) == Some(d),
        (None, SType::Fixed(_, size), Value::Bytes(b), V::Fixed(g)) => b.len() == *size && b == g,
        (Some(Logical::Decimal { .. }), _, Value::Bytes(b) | Value::Fixed(_, b), V::Decimal(g)) => refbin::from_twos_complement(b) == *g,
        (Some(Logical::Duration), _, Value::Fixed(12, b), V::Duration(x, y, z)) => {
            let f = |i: usize| u32::from_le_bytes([b[i], b[i + 1], b[i + 2], b[i + 3]]);
            (f(0), f(4), f(8)) == (*x, *y, *z)
        }
        (Some(Logical::Uuid), SType::Fixed(..), Value::Fixed(16, b), V::Uuid(g)) | (Some(Logical::Uuid), SType::Bytes, Value::Bytes(b), V::Uuid(g)) => b[..] == g[..],
        (Some(Logical::Uuid), SType::String, Value::String(s), V::Uuid(g)) => uuid::Uuid::parse_str(s).map(|u| u.as_bytes() == g).unwrap_or(false),
        // int-based and long-based values are interchangeable where resolution matched them (inside a union)
        (Some(Logical::Date | Logical::TimeMillis), _, Value::Date(x) | Value::TimeMillis(x), V::Int(g)) => x == g,
        (
            Some(Logical::TimeMicros | Logical::TimestampMillis | Logical::TimestampMicros | Logical::TimestampNanos | Logical::LocalTimestampMillis | Logical::LocalTimestampMicros | Logical::LocalTimestampNanos),
            _,
            Value::TimeMicros(x) | Value::TimestampMillis(x) | Value::TimestampMicros(x) | Value::TimestampNanos(x) | Value::LocalTimestampMillis(x) | Value::LocalTimestampMicros(x) | Value::LocalTimestampNanos(x),
            V::Long(g),
        ) => x == g,
        // a logical-typed value matched (inside a union, by resolution) against a branch of its base type
        (None, SType::Int, Value::Date(x) | Value::TimeMillis(x), V::Int(g)) => x == g,
        (None, SType::Long, Value::Date(x) | Value::TimeMillis(x), V::Long(g)) => *x as i64 == *g,
        (
            None,
            SType::Long,
            Value::TimeMicros(x) | Value::TimestampMillis(x) | Value::TimestampMicros(x) | Value::TimestampNanos(x) | Value::LocalTimestampMillis(x) | Value::LocalTimestampMicros(x) | Value::LocalTimestampNanos(x),
            V::Long(g),
        ) => x == g,
        // a uuid value matched (inside a union) against a plain string/bytes/fixed(16) branch
        (None, SType::String, Value::Uuid(u), V::Str(g)) => u.to_string() == *g,
        (None, SType::Bytes, Value::Uuid(u), V::Bytes(g)) => u.as_bytes()[..] == g[..],
        (None, SType::Fixed(_, 16), Value::Uuid(u), V::Fixed(g)) => u.as_bytes()[..] == g[..],
        (None, SType::Record(_, fields), Value::Record(items), V::Record(g)) => record_denotes(fields, &items.iter().map(|(k, v)| (k.as_str(), v)).collect::<Vec<_>>(), g, env),
        (None, SType::Record(_, fields), Value::Map(m), V::Record(g)) => record_denotes(fields, &m.iter().map(|(k, v)| (k.as_str(), v)).collect::<Vec<_>>(), g, env),
        (None, SType::Array(items), Value::Array(a), V::Array(g)) => a.len() == g.len() && a.iter().zip(g).all(|(x, y)| denotes(items, x, y, env)),
        (None, SType::Map(values), Value::Map(m), V::Map(g)) => m.len() == g.len() && g.iter().all(|(k, y)| m.get(k).map_or(false, |x| denotes(values, x, y, env))),
        _ => false,
    }
}

fn record_denotes(fields: &[FieldSpec], items: &[(&str, &Value)], got: &[V], env: &Env) -> bool {
    if fields.len() != got.len() {
        return false;
    }
    if items.iter().any(|(k, _)| !fields.iter().any(|f| f.name == *k || f.aliases.iter().any(|a| a == k))) {
        return false;
    }
    fields.iter().zip(got).all(|(f, g)| match items.iter().find(|(k, _)| *k == f.name || f.aliases.iter().any(|a| a == k)) {
        Some((_, x)) => denotes(&f.node, x, g, env),
        None => {
            // an omitted nullable field means null
            let fnode = deref(&f.node, env);
            matches!((&fnode.ty, g), (SType::Union(bs), V::Union(i, inner)) if matches!(bs.get(*i).map(|b| &b.ty), Some(SType::Null)) && **inner == V::Null)
        }
    })
}

// ---------------------------------------------------------------- the oracle

pub struct Verdict {
    pub key: String,
    pub msg: String,
}

/// Run every validating writer on `val`; `good` surrounds it in the container.
pub fn check_value(sub: &Subject, val: &Value, good: &(V, Value)) -> Result<&'static str, Verdict> {
    let accepted = val.validate(&sub.schema);
    let reader = GenericDatumReader::builder(&sub.schema).build().map_err(|e| Verdict { key: "writer-build".into(), msg: format!("{e}") })?;
    let decode_ok = |bytes: &[u8], what: &str| -> Result<(), Verdict> {
        let mut s: &[u8] = bytes;
        let got = reader.read_value(&mut s).map_err(|e| Verdict { key: "unreadable".into(), msg: format!("{what}: accepted by validation, written without error, but the bytes {} cannot be read back: {e}", crate::json::hex(bytes)) })?;
        if !s.is_empty() {
            return Err(Verdict { key: "unreadable".into(), msg: format!("{what}: {} trailing bytes after reading back", s.len()) });
        }
        let back = from_lib(&sub.node, &got, &sub.env).map_err(|m| Verdict { key: "wrong-value".into(), msg: format!("{what}: read back {}: {m}", short(&got)) })?;
        if !denotes(&sub.node, val, &back, &sub.env) {
            return Err(Verdict { key: "wrong-value".into(), msg: format!("{what}: read back {} which is not a canonical form of the given value", back.to_js().render()) });
        }
        // and the reference decoder agrees
        match refbin::decode(&sub.node, &sub.env, bytes) {
            Ok((r, used)) if used == bytes.len() && r.sem_eq(&back) => Ok(()),
            other => Err(Verdict { key: "wrong-value".into(), msg: format!("{what}: reference decoder reads {other:?}") }),
        }
    };
    // 1. datum writer
    let w = GenericDatumWriter::builder(&sub.schema).build().map_err(|e| Verdict { key: "writer-build".into(), msg: format!("{e}") })?;
    let mut sink = vec![0xAAu8, 0xBB];
    let r = w.write_value_ref(&mut sink, val);
    match (accepted, &r) {
        (true, Err(e)) => return Err(Verdict { key: "accepted-but-refused".into(), msg: format!("datum writer: validate() accepts {} but writing fails: {e}", short(val)) }),
        (true, Ok(_)) => decode_ok(&sink[2..], "datum writer")?,
        (false, Ok(_)) => return Err(Verdict { key: "rejected-but-written".into(), msg: format!("datum writer wrote a value validate() rejects: {}", short(val)) }),
        (false, Err(_)) => {
            if sink.len() != 2 {
                return Err(Verdict { key: "rejected-left-bytes".into(), msg: format!("datum writer returned Err but {} bytes reached the sink", sink.len() - 2) });
            }
        }
    }
    // 2. container writer: good, val, good
    let mut cw = Writer::new(&sub.schema, Vec::new()).map_err(|e| Verdict { key: "writer-build".into(), msg: format!("{e}") })?;
    cw.append_value_ref(&good.1).map_err(|e| Verdict { key: "good-refused".into(), msg: format!("{e}") })?;
    let r = cw.append_value_ref(val);
    cw.append_value_ref(&good.1).map_err(|e| Verdict { key: "good-refused".into(), msg: format!("{e}") })?;
    let file = cw.into_inner().map_err(|e| Verdict { key: "container-finish".into(), msg: format!("{e}") })?;
    let rb = read_back(&file).map_err(|e| Verdict { key: "container-unreadable".into(), msg: e })?;
    match (accepted, &r) {
        (true, Err(e)) => return Err(Verdict { key: "accepted-but-refused".into(), msg: format!("container writer: validate() accepts {} but append fails: {e}", short(val)) }),
        (false, Ok(_)) => return Err(Verdict { key: "rejected-but-written".into(), msg: "container writer appended a value validate() rejects".into() }),
        _ => {}
    }
    if let Some(e) = &rb.error {
        return Err(Verdict { key: "unreadable".into(), msg: format!("container: file with the accepted value does not read back: {e}") });
    }
    let want_n = if accepted { 3 } else { 2 };
    if rb.values.len() != want_n {
        return Err(Verdict { key: if accepted { "unreadable" } else { "rejected-left-bytes" }.into(), msg: format!("container holds {} values, expected {want_n}", rb.values.len()) });
    }
    for (i, got) in rb.values.iter().enumerate() {
        let back = from_lib(&sub.node, got, &sub.env).map_err(|m| Verdict { key: "wrong-value".into(), msg: format!("container value {i}: {m}") })?;
        let ok = if accepted && i == 1 { denotes(&sub.node, val, &back, &sub.env) } else { back.sem_eq(&good.0) };
        if !ok {
            return Err(Verdict { key: "wrong-value".into(), msg: format!("container value {i} read back as {}", back.to_js().render()) });
        }
    }
    // 3. single-object writer: the unit is the message
    let mut so = GenericSingleObjectWriter::new_with_capacity(&sub.schema, 64).map_err(|e| Verdict { key: "writer-build".into(), msg: format!("{e}") })?;
    let mut sink = vec![];
    let r = so.write_value_ref(val, &mut sink);
    match (accepted, &r) {
        (true, Err(e)) => return Err(Verdict { key: "accepted-but-refused".into(), msg: format!("single-object writer: {e}") }),
        (true, Ok(_)) => {
            if sink.len() < 10 {
                return Err(Verdict { key: "unreadable".into(), msg: "single-object message shorter than its header".into() });
            }
            decode_ok(&sink[10..], "single-object writer")?;
        }
        (false, Ok(_)) => return Err(Verdict { key: "rejected-but-written".into(), msg: "single-object writer wrote a value validate() rejects".into() }),
        (false, Err(_)) => {
            if !sink.is_empty() {
                return Err(Verdict { key: "rejected-left-bytes".into(), msg: format!("single-object writer returned Err but {} bytes reached the sink", sink.len()) });
            }
        }
    }
    Ok(if accepted { "accepted" } else { "rejected" })
}

pub fn case_forms(c: &mut Choices, log: &mut CaseLog) -> CaseResult {
    let cfg = if c.bool() { schema_cfg() } else { SgenCfg { node_budget: 16, max_depth: 3, decorations: true, ..SgenCfg::full() } };
    let Some(sub) = gen_subject(c, &cfg, log)? else {
        return Ok(());
    };
    let md = min_depths(&sub.env);
    let vcfg = vgen::VgenCfg { big_collections: false, long_strings: false, bigdec_scale: 6, ..vgen::VgenCfg::small() };
    let v = vgen::gen_value_cfg(c, &sub.node, &sub.env, &md, &vcfg);
    let canonical = to_lib(&sub.node, &v, &sub.env);
    let gv = vgen::gen_value_cfg(c, &sub.node, &sub.env, &md, &vcfg);
    let good = (gv.clone(), to_lib(&sub.node, &gv, &sub.env));
    let near = c.chance(1, 4);
    let k = 1 + c.weighted(&[7, 2, 1]);
    let mut val = canonical.clone();
    let mut forms: Vec<Form> = vec![];
    let mut singles: Vec<(Value, Form)> = vec![];
    let mut bare_path: Option<Vec<Step>> = None;
    for i in 0..k {
        // a near-miss or a bare-value-in-union form stands alone (validation matches bare values by
        // *resolution*, so combining them with other non-canonical forms multiplies known leniencies);
        // combinations are drawn among the other forms
        let nm = near && i == 0;
        let Some((nv, f, path)) = apply_form_at(&sub.node, &val, &sub.env, nm, i == 0, c) else {
            break;
        };
        if f.name.starts_with("bare-") {
            bare_path = Some(path);
        }
        let alone = nm || f.name.starts_with("bare-");
        if let Some((sv, sf)) = apply_form_same(&sub.node, &canonical, &sub.env, &f, nm, c) {
            singles.push((sv, sf));
        }
        val = nv;
        forms.push(f);
        if alone {
            break;
        }
    }
    log.label("case");
    if forms.is_empty() {
        log.label("no_position");
    }
    for f in &forms {
        log.label(&format!("form:{}", f.name));
    }
    log.nontrivial = !forms.is_empty();
    log.hash = fnv(format!("{}|{:?}", sub.text, val).as_bytes());
    let describe = |val: &Value, forms: &[Form]| {
        Js::obj(vec![
            ("schema", Js::Str(sub.text.clone())),
            ("canonical_value", Js::Str(v.to_js().render())),
            ("given_value", Js::Str(short(val))),
            ("forms", Js::Arr(forms.iter().map(|f| Js::Str(format!("{}@{}", f.name, f.at))).collect())),
        ])
    };
    // independent of the outcome below: the encoder writes a bare value under the branch that
    // validation matched it with
    if let Some(path) = &bare_path {
        if val.validate(&sub.schema) {
            log.label("bare_branch_compared");
            if let Some(msg) = bare_branch_disagreement(&sub, &val, path) {
                return Err(Fail::new(format!("C07/encoder-branch-differs-from-validation/{}@{}", forms[0].name, forms[0].at), msg).with(describe(&val, &forms)));
            }
        }
    }
    match check_value(&sub, &val, &good) {
        Ok(side) => {
            log.label(side);
            if !forms.is_empty() {
                log.sample = Some(describe(&val, &forms));
            }
            Ok(())
        }
        Err(verdict) => {
            // a value of another kind put at a union position is a bare value in a union: validation
            // matches it by resolution (known to change values); other verdicts keep their own key
            let class = |f: &Form| -> String {
                if f.name.starts_with("cross:") && f.at == "union" { "bare-value-in-union@union".to_string() } else { format!("{}@{}", f.name, f.at) }
            };
            // attribute to a single form when one alone reproduces the same verdict
            // (the verdict may differ: a corrupt datum is sometimes unreadable, sometimes a wrong value)
            for (sv, sf) in &singles {
                if let Err(v1) = check_value(&sub, sv, &good) {
                    return Err(Fail::new(format!("C07/{}/{}", v1.key, class(sf)), v1.msg).with(describe(sv, std::slice::from_ref(sf))));
                }
            }
            // forms whose own known leniency explains a failure of any combination containing them
            const LENIENT: &[&str] = &["fixed-for-decimal", "bytes-for-decimal", "map-for-record", "record-omits-nullable-field", "missing-field", "enum-index-out-of-range-with-default", "non-uuid-string-for-uuid", "union-index-mismatch"];
            if let Some(f) = forms.iter().find(|f| LENIENT.contains(&f.name)) {
                return Err(Fail::new(format!("C07/{}/{}@{}", verdict.key, f.name, f.at), verdict.msg).with(describe(&val, &forms)));
            }
            let mut names: Vec<String> = forms.iter().map(|f| class(f)).collect();
            names.sort();
            names.dedup();
            let tag = if names.is_empty() { "canonical".to_string() } else { names.join("+") };
            Err(Fail::new(format!("C07/{}/{}", verdict.key, tag), verdict.msg).with(describe(&val, &forms)))
        }
    }
}

/// Re-apply the same kind of form alone on the canonical value (first position offering it).
fn apply_form_same(node: &SNode, canonical: &Value, env: &Env, form: &Form, near: bool, c: &mut Choices) -> Option<(Value, Form)> {
    let mut m = Mutator { env, c, skip: 0, applied: None, near_miss: near, want: Some(form.clone()), allow_bare: true, cross: form.name.starts_with("cross:"), path: vec![], applied_path: vec![] };
    let out = m.walk(node, canonical);
    m.applied.map(|f| (out, f))
}

pub fn dispatch(campaign: &str, c: &mut Choices, log: &mut CaseLog) -> Option<CaseResult> {
    match campaign {
        "forms" => Some(case_forms(c, log)),
        _ => None,
    }
}

pub fn run(mut chk: Check) -> ! {
    if let Err(e) = refbin::self_test() {
        infra(&format!("refbin self-test failed: {e}"));
    }
    chk.rule = "generated (schema, canonical value) with 1-3 representation changes at random positions: accepted forms (bare value in a union position, string for enum, int for long/date/time, long for long-based logical types, float for double, bytes for fixed, bytes/fixed for decimal, fixed for duration/uuid, string for uuid, map for record, reordered record, record omitting a nullable field, out-of-range enum index with enum default) and near-miss forms (wrong variant, wrong fixed length, unknown symbol, extra/missing field, union index mismatch/out of range, short uuid string). \
        The library's validate() decides the side. Accepted => datum writer, container writer and single-object writer return Ok and the bytes decode (library reader and reference decoder) to a canonical form computed by the harness (any matching branch for a bare union value); rejected => every writer returns Err and no byte of it is in the sink / file / message. \
        Non-trivial: at least one form change applied. Distinct by hash of (schema, given value)."
        .into();
    chk.assumptions = vec!["canonical forms are computed by the harness's own canon(); a failure is attributed to a single form when that form alone reproduces the verdict".into()];
    chk.replay_files(dispatch);
    let n = chk.scale(400_000, 3_000_000);
    chk.campaign(CampaignCfg::new("forms", n), case_forms);
    chk.require_label("forms:accepted", "forms:case", 20.0);
    chk.require_label("forms:rejected", "forms:case", 3.0);
    chk.finish()
}
