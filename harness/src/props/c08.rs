//! C08 — reading with a different reader schema follows the spec's resolution rules.

use super::common::*;
use crate::choices::{fnv, Choices};
use crate::evolve::{evolve_once, refs_consistent, Step};
use crate::json::Js;
use crate::refbin;
use crate::refresolve::{self, Alt};
use crate::runner::*;
use crate::sgen::SgenCfg;
use crate::spec::*;
use crate::tolib::{from_lib, parse_schema, short, to_lib};
use crate::vgen;
use apache_avro::reader::datum::GenericDatumReader;
use apache_avro::types::Value;
use apache_avro::{Reader, Schema, Writer};

pub fn wcfg() -> SgenCfg {
    SgenCfg { logical: false, node_budget: 14, max_depth: 3, zero_fixed: false, single_named_per_union: true, ..SgenCfg::full() }
}

/// C08's own profile: also the logical types on int and long, and field defaults, in the generated
/// writer schema (decimal, uuid and duration across schema changes are not modelled by the reference)
pub fn wcfg_rich() -> SgenCfg {
    SgenCfg { logical: true, logical_numeric_only: true, defaults: true, ..wcfg() }
}

pub struct Pair {
    pub w: Subject,
    pub r: Subject,
    pub steps: Vec<Step>,
}

/// Generate (W, R). None when no step applied or R is not accepted by the parser.
pub fn gen_pair(c: &mut Choices, log: &mut CaseLog, cfg: &SgenCfg, allow_incompatible: bool) -> Result<Option<Pair>, Fail> {
    let Some(w) = gen_subject(c, cfg, log)? else {
        return Ok(None);
    };
    let mut counter = 0usize;
    let k = 1 + c.weighted(&[5, 3, 2, 1, 1]);
    let mut rnode = w.node.clone();
    let mut steps: Vec<Step> = vec![];
    for i in 0..k {
        let incompat = allow_incompatible && i == 0 && c.chance(1, 3);
        let Some((nn, st)) = evolve_once(&rnode, &w.env, c, &mut counter, incompat, None) else {
            break;
        };
        if !refs_consistent(&nn) {
            log.label("step_broke_refs");
            continue;
        }
        let alone = !st.safe && (st.name.starts_with("narrow") || st.name.starts_with("incompatible") || st.name.contains("without") || st.name == "fixed-size-change");
        rnode = nn;
        steps.push(st);
        if alone {
            break;
        }
    }
    if steps.is_empty() {
        log.label("no_step");
        return Ok(None);
    }
    let renv = env_of(&rnode);
    match parse_schema(&rnode) {
        Ok((text, schema)) => Ok(Some(Pair { w, r: Subject { node: rnode, env: renv, text, schema }, steps })),
        Err(e) => {
            log.label("reader_rejected");
            if std::env::var("VERIF_DEBUG_REJECT").is_ok() {
                eprintln!("reader rejected: {e}\n  {}", render_text(&rnode));
            }
            Ok(None)
        }
    }
}

/// Order-independent rendering of a library value (maps sorted by key).
pub fn vkey(v: &Value) -> String {
    match v {
        Value::Map(m) => {
            let mut keys: Vec<&String> = m.keys().collect();
            keys.sort();
            format!("Map{{{}}}", keys.iter().map(|k| format!("{k:?}:{}", vkey(&m[*k]))).collect::<Vec<_>>().join(","))
        }
        Value::Array(a) => format!("[{}]", a.iter().map(vkey).collect::<Vec<_>>().join(",")),
        Value::Record(r) => format!("Rec{{{}}}", r.iter().map(|(k, x)| format!("{k:?}:{}", vkey(x))).collect::<Vec<_>>().join(",")),
        Value::Union(i, b) => format!("U{i}({})", vkey(b)),
        Value::Float(f) => format!("f32:{:08x}", f.to_bits()),
        Value::Double(f) => format!("f64:{:016x}", f.to_bits()),
        other => format!("{other:?}"),
    }
}

#[derive(Debug)]
pub struct Verdict {
    pub key: String,
    pub msg: String,
}

/// Read `v` (of W) with R through the three routes and judge against the reference.
/// Does `got` sit, somewhere, in a reader-union branch that the writer's schema at that position
/// does not match under the specification's "schemas match" relation?
fn branch_picked_by_value(w: &SNode, r: &SNode, wv: &V, got: &V, cx: &refresolve::Ctx, depth: usize) -> bool {
    if depth > 24 {
        return false;
    }
    let w = deref(w, cx.wenv);
    let r = deref(r, cx.renv);
    if let (SType::Union(wbs), V::Union(j, inner)) = (&w.ty, wv) {
        return match wbs.get(*j) {
            Some(wb) => branch_picked_by_value(wb, r, inner, got, cx, depth + 1),
            None => false,
        };
    }
    if let SType::Union(rbs) = &r.ty {
        let V::Union(i, ginner) = got else {
            return false;
        };
        let Some(rb) = rbs.get(*i) else {
            return false;
        };
        if !refresolve::matches(w, rb, cx, 0) {
            return true;
        }
        return branch_picked_by_value(w, rb, wv, ginner, cx, depth + 1);
    }
    match (&w.ty, &r.ty, wv, got) {
        (SType::Array(wi), SType::Array(ri), V::Array(a), V::Array(g)) => a.iter().zip(g).any(|(x, y)| branch_picked_by_value(wi, ri, x, y, cx, depth + 1)),
        (SType::Map(wi), SType::Map(ri), V::Map(a), V::Map(g)) => a.iter().any(|(k, x)| g.iter().find(|(k2, _)| k2 == k).map_or(false, |(_, y)| branch_picked_by_value(wi, ri, x, y, cx, depth + 1))),
        (SType::Record(_, wf), SType::Record(_, rf), V::Record(a), V::Record(g)) => rf.iter().zip(g).any(|(rfield, y)| {
            let pos = wf.iter().position(|f| f.name == rfield.name || rfield.aliases.iter().any(|al| *al == f.name));
            match pos.and_then(|i| a.get(i).map(|x| (&wf[i], x))) {
                Some((wfield, x)) => branch_picked_by_value(&wfield.node, &rfield.node, x, y, cx, depth + 1),
                None => false,
            }
        }),
        _ => false,
    }
}

pub fn judge(p: &Pair, v: &V) -> Result<&'static str, Verdict> {
    let lv = to_lib(&p.w.node, v, &p.w.env);
    let bytes = refbin::encode_canonical(&p.w.node, v, &p.w.env);
    let mut cx = refresolve::Ctx::new(&p.w.env, &p.r.env);
    let alts = refresolve::resolve(&p.w.node, &p.r.node, v, &mut cx, 0);
    let truncated = cx.truncated;
    // root cause of an "error" verdict of the rules: the classes the library is known to be lenient
    // about come last, so that another cause is never hidden behind them
    const KNOWN_LENIENT: [&str; 4] = ["named-type-name-mismatch", "types-do-not-match", "no-reader-union-branch-matches", "fixed-size-or-logical-type-differs"];
    let why: &'static str = cx.reasons.iter().find(|r| !KNOWN_LENIENT.contains(r)).or_else(|| cx.reasons.iter().next()).copied().unwrap_or("unclassified");
    // route 1: datum reader with reader schema
    let rd = GenericDatumReader::builder(&p.w.schema).reader_schema(&p.r.schema).build().map_err(|e| Verdict { key: "reader-build".into(), msg: format!("{e}") })?;
    let mut s: &[u8] = &bytes;
    let r1 = guard(|| rd.read_value(&mut s)).map_err(|pn| Verdict { key: format!("panic/{}", pn.key_loc()), msg: format!("read_value panicked at {}: {}", pn.short_loc(), pn.msg) })?;
    // route 2: decode with W, then Value::resolve(R)
    let r2 = guard(|| lv.clone().resolve(&p.r.schema)).map_err(|pn| Verdict { key: format!("panic/{}", pn.key_loc()), msg: format!("resolve panicked at {}: {}", pn.short_loc(), pn.msg) })?;
    // route 3: container file written with W, read with reader schema R
    let r3: Result<Value, String> = (|| {
        let mut w = Writer::new(&p.w.schema, Vec::new()).map_err(|e| format!("{e}"))?;
        w.append_value_ref(&lv).map_err(|e| format!("HARNESS: conforming value refused: {e}"))?;
        let file = w.into_inner().map_err(|e| format!("{e}"))?;
        let mut r = Reader::builder(&file[..]).reader_schema(&p.r.schema).build().map_err(|e| format!("{e}"))?;
        match r.next() {
            Some(Ok(v)) => Ok(v),
            Some(Err(e)) => Err(format!("{e}")),
            None => Err("no value".into()),
        }
    })();
    if let Err(e) = &r3 {
        if e.starts_with("HARNESS") {
            return Err(Verdict { key: "HARNESS".into(), msg: e.clone() });
        }
    }
    // the routes agree
    let show = |r: &Result<Value, String>| match r {
        Ok(v) => format!("Ok({})", short(v)),
        Err(e) => format!("Err({})", &e[..e.len().min(120)]),
    };
    let r1s = r1.as_ref().map(|v| v.clone()).map_err(|e| format!("{e}"));
    let r2s = r2.as_ref().map(|v| v.clone()).map_err(|e| format!("{e}"));
    let agree = |a: &Result<Value, String>, b: &Result<Value, String>| match (a, b) {
        (Ok(x), Ok(y)) => match (from_lib(&p.r.node, x, &p.r.env), from_lib(&p.r.node, y, &p.r.env)) {
            (Ok(a), Ok(b)) => a.sem_eq(&b),
            _ => vkey(x) == vkey(y),
        },
        (Err(_), Err(_)) => true,
        _ => false,
    };
    if !agree(&r1s, &r2s) {
        return Err(Verdict { key: "routes-disagree/datum-reader-vs-value-resolve".into(), msg: format!("GenericDatumReader with reader schema: {}; decode + Value::resolve: {}", show(&r1s), show(&r2s)) });
    }
    if !agree(&r1s, &r3) {
        // known root cause: with a reader schema the container Reader resolves *references inside
        // the writer schema* against the reader's definitions
        fn has_ref(n: &SNode) -> bool {
            match &n.ty {
                SType::Ref(_) => true,
                SType::Array(i) | SType::Map(i) => has_ref(i),
                SType::Union(bs) => bs.iter().any(has_ref),
                SType::Record(_, fs) => fs.iter().any(|f| has_ref(&f.node)),
                _ => false,
            }
        }
        let _ = has_ref;
        let key = "routes-disagree/datum-reader-vs-container-reader";
        return Err(Verdict { key: key.into(), msg: format!("GenericDatumReader with reader schema: {}; Reader with reader schema: {}", show(&r1s), show(&r3)) });
    }
    if truncated {
        return Ok("reference_inconclusive");
    }
    let has_val = alts.iter().any(|a| matches!(a, Alt::Val(_)));
    let has_err = alts.iter().any(|a| matches!(a, Alt::Err));
    match &r1s {
        Ok(x) => {
            let got = match from_lib(&p.r.node, x, &p.r.env) {
                Ok(g) => g,
                Err(m) => {
                    if !has_val {
                        return Err(Verdict { key: format!("lenient/{why}"), msg: format!("the rules give no result but a value was returned: {}", short(x)) });
                    }
                    // Fixed(n, n bytes) with n different from the schema's size can only come from
                    // Value::resolve_fixed(String), the one conversion to fixed without a length check
                    let string_to_fixed = m.strip_prefix("fixed length ").and_then(|r| r.split_once(" for size ")).map_or(false, |(ab, size)| match ab.split_once('/') {
                        Some((a, b)) => a == b && a != size,
                        None => false,
                    });
                    if string_to_fixed {
                        return Err(Verdict { key: "string-resolved-to-fixed-of-another-length".into(), msg: format!("a string was resolved to a fixed of the reader schema without a length check: {m}; result {}", short(x)) });
                    }
                    return Err(Verdict { key: "result-not-conforming-to-reader".into(), msg: format!("{m}") });
                }
            };
            if !has_val {
                return Err(Verdict { key: format!("lenient/{why}"), msg: format!("the resolution rules give no result (error: {why}) but {} was returned", got.to_js().render()) });
            }
            if !alts.iter().any(|a| matches!(a, Alt::Val(e) if e.sem_eq(&got))) {
                // the known leniency also shows where the rules do give a result: the branch of a
                // reader union is picked by converting the value, not by matching the schemas
                let cx2 = refresolve::Ctx::new(&p.w.env, &p.r.env);
                if branch_picked_by_value(&p.w.node, &p.r.node, v, &got, &cx2, 0) {
                    return Err(Verdict { key: "lenient/reader-union-branch-picked-by-value".into(), msg: format!("a reader union branch whose schema does not match the writer's schema was chosen because the value converts: read {}", got.to_js().render()) });
                }
                let want = alts.iter().find_map(|a| if let Alt::Val(e) = a { Some(e.to_js().render()) } else { None }).unwrap_or_default();
                return Err(Verdict { key: "wrong-value".into(), msg: format!("read {} but the rules prescribe {}", got.to_js().render(), want) });
            }
            if !x.validate(&p.r.schema) {
                return Err(Verdict { key: "result-does-not-validate".into(), msg: format!("{} does not validate against the reader schema", short(x)) });
            }
            match x.clone().resolve(&p.r.schema) {
                Ok(again) => {
                    let same = from_lib(&p.r.node, &again, &p.r.env).map(|a| a.sem_eq(&got)).unwrap_or(false);
                    if !same {
                        return Err(Verdict { key: "resolve-not-idempotent".into(), msg: format!("resolving the resolved value again gives {}", short(&again)) });
                    }
                }
                Err(e) => return Err(Verdict { key: "resolve-not-idempotent".into(), msg: format!("resolving the resolved value again fails: {e}") }),
            }
            Ok("resolved")
        }
        Err(e) => {
            if !has_err {
                let want = alts.iter().find_map(|a| if let Alt::Val(e) = a { Some(e.to_js().render()) } else { None }).unwrap_or_default();
                return Err(Verdict { key: "spec-result-refused".into(), msg: format!("the rules prescribe {want} but reading fails: {e}") });
            }
            Ok("error_as_specified")
        }
    }
}

pub fn pair_detail(p: &Pair, v: &V) -> Js {
    Js::obj(vec![
        ("writer_schema", Js::Str(p.w.text.clone())),
        ("reader_schema", Js::Str(p.r.text.clone())),
        ("steps", Js::Arr(p.steps.iter().map(|s| Js::Str(format!("{}@{}", s.name, s.at))).collect())),
        ("value", Js::Str(v.to_js().render())),
    ])
}

fn has_logical(n: &SNode) -> bool {
    n.logical.is_some()
        || match &n.ty {
            SType::Array(i) | SType::Map(i) => has_logical(i),
            SType::Union(bs) => bs.iter().any(has_logical),
            SType::Record(_, fs) => fs.iter().any(|f| has_logical(&f.node)),
            _ => false,
        }
}

fn strip_logical(n: &SNode) -> SNode {
    let mut out = n.clone();
    if matches!(out.ty, SType::Int | SType::Long) {
        out.logical = None;
    }
    out.ty = match &n.ty {
        SType::Array(i) => SType::Array(Box::new(strip_logical(i))),
        SType::Map(i) => SType::Map(Box::new(strip_logical(i))),
        SType::Union(bs) => SType::Union(bs.iter().map(strip_logical).collect()),
        SType::Record(nm, fs) => SType::Record(nm.clone(), fs.iter().map(|f| FieldSpec { node: strip_logical(&f.node), ..f.clone() }).collect()),
        other => other.clone(),
    };
    out
}

pub fn step_tag(steps: &[Step]) -> String {
    let mut names: Vec<String> = steps.iter().map(|s| format!("{}@{}", s.name, s.at)).collect();
    names.sort();
    names.dedup();
    names.join("+")
}

pub fn case_pair(c: &mut Choices, log: &mut CaseLog) -> CaseResult {
    case_pair_cfg(c, log, &wcfg(), "C08")
}

/// Writer schemas with logical types and field defaults as well.
pub fn case_pair_rich(c: &mut Choices, log: &mut CaseLog) -> CaseResult {
    case_pair_cfg(c, log, &wcfg_rich(), "C08")
}

/// Unions with several record/enum/fixed branches or a map next to a record: the library selects
/// such branches by trial resolution of the value, not by name (known finding); everything that
/// goes wrong in this profile is attributed to that class.
pub fn case_pair_multi_named(c: &mut Choices, log: &mut CaseLog) -> CaseResult {
    let cfg = SgenCfg { single_named_per_union: false, ..wcfg() };
    case_pair_cfg(c, log, &cfg, "C08/multi-named-union")
}

fn case_pair_cfg(c: &mut Choices, log: &mut CaseLog, cfg: &SgenCfg, prefix: &str) -> CaseResult {
    let Some(p) = gen_pair(c, log, cfg, true)? else {
        return Ok(());
    };
    let md = min_depths(&p.w.env);
    let vcfg = vgen::VgenCfg { big_collections: false, long_strings: false, max_items: 2, ..vgen::VgenCfg::small() };
    log.label("pair");
    for s in &p.steps {
        log.label(&format!("step:{}", s.name));
    }
    log.nontrivial = p.steps.len() >= 2 || p.steps.iter().any(|s| !s.safe);
    log.hash = fnv(format!("{}|{}", p.w.text, p.r.text).as_bytes());
    for i in 0..3 {
        let v = vgen::gen_value_cfg(c, &p.w.node, &p.w.env, &md, &vcfg);
        log.sub_evals += 1;
        match judge(&p, &v) {
            Ok(l) => {
                log.label(l);
                if i == 0 {
                    log.sample = Some(pair_detail(&p, &v));
                }
            }
            Err(mut verdict) => {
                if verdict.key == "HARNESS" {
                    return Err(Fail::new("HARNESS/c08", verdict.msg));
                }
                // causal re-test: without the logical types in the WRITER schema (same bytes, the
                // values of int/long based logical types are their ints) the same pair resolves as
                // prescribed -> the library does not read a logical value through its base type
                // (the root cause behind C09/unsound/logical-type/*)
                // ... and the refused value is of a logical type that the reader schema does not have
                // (with the same logical type on both sides resolution works; a failure there is new)
                // ... and the reader can have lost the writer's logical type: that takes a step that removes
                // or retypes a node (with additions and reorderings only, the logical type is still there
                // on the reader's side and resolution works; a failure there is reported)
                let reader_may_lack_it = p.steps.iter().any(|st| st.name.starts_with("remove-union-branch") || st.name.starts_with("promote-") || st.name.starts_with("unwrap-union") || st.name.starts_with("narrow-") || st.name.starts_with("incompatible-"));
                if verdict.key == "spec-result-refused" && has_logical(&p.w.node) && reader_may_lack_it {
                    if let Ok(w2) = crate::specparse::subject_from_text(&render_text(&strip_logical(&p.w.node))) {
                        let p2 = Pair { w: w2, r: crate::specparse::subject_from_text(&p.r.text).map_err(|e| Fail::new("HARNESS/c08-reparse", e))?, steps: vec![] };
                        // (the refusal is gone; whatever else the library then does with the plain
                        // int/long is judged on pairs without logical types)
                        let refusal_gone = match judge(&p2, &v) {
                            Ok(_) => true,
                            Err(v2) => v2.key != "spec-result-refused" && v2.key != "HARNESS",
                        };
                        if refusal_gone {
                            verdict.key = "logical-value-not-read-through-its-base-type".into();
                        }
                    }
                }
                let key = format!("{prefix}/{}/{}", verdict.key, step_tag(&p.steps));
                return Err(Fail::new(key, verdict.msg).with(pair_detail(&p, &v)));
            }
        }
    }
    Ok(())
}

pub fn dispatch(campaign: &str, c: &mut Choices, log: &mut CaseLog) -> Option<CaseResult> {
    match campaign {
        "pairs" => Some(case_pair(c, log)),
        "multi_named" => Some(case_pair_multi_named(c, log)),
        "pairs_rich" => Some(case_pair_rich(c, log)),
        _ => None,
    }
}

pub fn run(mut chk: Check) -> ! {
    if let Err(e) = refbin::self_test() {
        infra(&format!("refbin self-test failed: {e}"));
    }
    chk.rule = "writer schema W from the generator (primitives, records, enums, arrays, maps, unions, fixed, references, recursion); reader schema R = W after 1-5 evolution steps at random positions (numeric and string/bytes promotions; add field with default / remove / reorder / rename-with-alias fields; add / remove / reorder enum symbols, enum default; add / remove / reorder union branches, wrap in / unwrap from a union; rename named types with alias; and incompatible steps applied alone: narrowing, foreign types, fixed size change, rename without alias, field without default); 3 values of W per pair. \
        Oracle: an independent implementation of the specification's resolution rules listing every spec-conformant outcome (set-valued for reader unions); the three library routes (GenericDatumReader with reader schema, decode + Value::resolve, container Reader with reader schema) agree; Ok results are among the prescribed values, validate against R and resolve to themselves; Err only where the rules allow an error. \
        Non-trivial: >= 2 steps or an unsafe step. Distinct by hash of (W, R)."
        .into();
    chk.assumptions = vec!["refresolve implements the specification's rules; where its alternative list had to be truncated or a default could not be interpreted the case only checks route agreement".into()];
    chk.replay_files(dispatch);
    let n = chk.scale(300_000, 2_000_000);
    chk.campaign(CampaignCfg::new("pairs", n), case_pair);
    chk.campaign(CampaignCfg::new("multi_named", n / 6), case_pair_multi_named);
    chk.campaign(CampaignCfg::new("pairs_rich", n / 3), case_pair_rich);
    chk.finish()
}

#[allow(dead_code)]
fn _unused(_: &Schema) {}
