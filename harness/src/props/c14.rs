//! C14 — truncated or marker-corrupted files: exhaustive fault enumeration per generated file.

use super::common::*;
use crate::choices::{fnv, Choices};
use crate::json::Js;
use crate::refocf;
use crate::runner::*;
use crate::spec::*;
use crate::specparse::subject_from_text;
use crate::tolib::{from_lib, to_lib};
use crate::vgen;
use apache_avro::types::Value;
use apache_avro::{Reader, Writer};

const ITEM_SCHEMAS: &[&str] = &[
    r#""null""#,
    r#"{"type":"record","name":"Empty","fields":[]}"#,
    r#""long""#,
    r#""string""#,
    r#"{"type":"fixed","name":"F4","size":4}"#,
    r#"{"type":"record","name":"R","fields":[{"name":"a","type":"int"},{"name":"b","type":"string"},{"name":"c","type":["null","boolean"]}]}"#,
    r#"{"type":"array","items":"int"}"#,
    r#"["null","string","long"]"#,
    r#""boolean""#,
];

pub struct Built {
    pub sub: Subject,
    pub file: Vec<u8>,
    pub layout: refocf::OcfFile,
    /// values per block
    pub blocks: Vec<Vec<V>>,
    pub codec: String,
}

pub fn build_file(c: &mut Choices) -> Result<Built, Fail> {
    let text = ITEM_SCHEMAS[c.pick(ITEM_SCHEMAS.len())];
    let sub = subject_from_text(text).map_err(|e| Fail::new("HARNESS/item-schema", e))?;
    let md = min_depths(&sub.env);
    let vcfg = vgen::VgenCfg { big_collections: false, long_strings: false, max_items: 2, ..vgen::VgenCfg::small() };
    let codec = gen_codec(c, true);
    let nblocks = 2 + c.pick(4);
    let mut marker = [0u8; 16];
    marker.copy_from_slice(&c.bytes(16));
    let mut w = Writer::builder()
        .schema(&sub.schema)
        .writer(Vec::new())
        .codec(codec)
        .block_size(1 << 24)
        .marker(marker)
        .build()
        .map_err(|e| Fail::new("C14/writer-build", format!("{e}")))?;
    let mut blocks = vec![];
    for _ in 0..nblocks {
        let count = match c.weighted(&[3, 3, 2]) {
            0 => 1 + c.pick(3),
            1 => 4 + c.pick(60),
            _ => 64 + c.pick(140),
        };
        let mut vals = vec![];
        for _ in 0..count {
            let v = vgen::gen_value_cfg(c, &sub.node, &sub.env, &md, &vcfg);
            w.append_value_ref(&to_lib(&sub.node, &v, &sub.env)).map_err(|e| Fail::new("C14/append", format!("{e}")))?;
            vals.push(v);
        }
        w.flush().map_err(|e| Fail::new("C14/flush", format!("{e}")))?;
        blocks.push(vals);
    }
    let file = w.into_inner().map_err(|e| Fail::new("C14/into-inner", format!("{e}")))?;
    let layout = refocf::read(&file).map_err(|e| Fail::new("C14/layout", format!("independent reader cannot read the pristine file: {e}")))?;
    if layout.blocks.len() != blocks.len() || layout.blocks.iter().zip(&blocks).any(|(b, v)| b.count as usize != v.len()) {
        return Err(Fail::new("C14/layout-blocks", format!("expected {} blocks with the flushed counts, file has {:?}", blocks.len(), layout.blocks.iter().map(|b| b.count).collect::<Vec<_>>())));
    }
    Ok(Built { sub, file, layout, blocks, codec: codec_name(&codec) })
}

pub enum Outcome {
    OpenFailed(String),
    Read { values: Vec<Value>, errors: usize, first_error: Option<String>, items_after_error: usize },
}

pub fn read_damaged(bytes: &[u8]) -> Outcome {
    match Reader::new(bytes) {
        Err(e) => Outcome::OpenFailed(format!("{e}")),
        Ok(mut r) => {
            let mut values = vec![];
            let mut errors = 0;
            let mut first_error = None;
            let mut after = 0;
            let mut extra_polls = 0;
            loop {
                match r.next() {
                    Some(Ok(v)) => {
                        if errors > 0 {
                            after += 1;
                        } else {
                            values.push(v);
                        }
                    }
                    Some(Err(e)) => {
                        errors += 1;
                        if first_error.is_none() {
                            first_error = Some(format!("{e}"));
                        }
                    }
                    None => {
                        // "then None forever": poll twice more
                        extra_polls += 1;
                        if extra_polls > 2 {
                            break;
                        }
                    }
                }
                if values.len() + errors + after > 100_000 {
                    break;
                }
            }
            Outcome::Read { values, errors, first_error, items_after_error: after }
        }
    }
}

/// The deserializing iterator over the same bytes: (items before the first error, errors, items after it).
/// None if the file does not open.
pub fn read_damaged_deser(bytes: &[u8]) -> Option<(usize, usize, usize)> {
    let r = Reader::new(bytes).ok()?;
    let (mut ok, mut errors, mut after, mut total) = (0usize, 0usize, 0usize, 0usize);
    for item in r.into_deser_iter::<crate::dynserde::AnyTree>() {
        total += 1;
        match item {
            Ok(_) if errors == 0 => ok += 1,
            Ok(_) => after += 1,
            Err(_) => errors += 1,
        }
        if total > 100_000 {
            break;
        }
    }
    Some((ok, errors, after))
}

/// Both iterators tell the same story about a damaged file.
fn deser_agrees(b: &Built, damaged: &[u8], values: usize, errors: usize, what: &str) -> CaseResult {
    let got = guard(|| read_damaged_deser(damaged)).map_err(|p| Fail::new(format!("C14/panic/{}", p.key_loc()), format!("{what} (into_deser_iter): {}", p.msg)).with(fdetail(b, what.to_string())))?;
    match got {
        None => Err(Fail::new("C14/deser-iterator-differs", format!("{what}: the file opens for the value iterator but not for into_deser_iter")).with(fdetail(b, what.to_string()))),
        Some((ok, errs, after)) => {
            if ok != values || (errs == 0) != (errors == 0) || errs > 1 || after != 0 {
                return Err(Fail::new(
                    "C14/deser-iterator-differs",
                    format!("{what}: the value iterator delivers {values} values and {errors} error(s); into_deser_iter delivers {ok} values, {errs} error(s) and {after} item(s) after the first error"),
                )
                .with(fdetail(b, what.to_string())));
            }
            Ok(())
        }
    }
}

fn expect_prefix(b: &Built, got: &[Value], nblocks: usize) -> Result<(), String> {
    let want: Vec<&V> = b.blocks[..nblocks].iter().flatten().collect();
    if got.len() != want.len() {
        return Err(format!("{} values delivered, the {nblocks} complete block(s) hold {}", got.len(), want.len()));
    }
    for (i, (g, w)) in got.iter().zip(want).enumerate() {
        let ok = from_lib(&b.sub.node, g, &b.sub.env).map(|x| x.sem_eq(w)).unwrap_or(false);
        if !ok {
            return Err(format!("value {i} differs from what was written"));
        }
    }
    Ok(())
}

fn fdetail(b: &Built, what: String) -> Js {
    Js::obj(vec![
        ("schema", Js::Str(b.sub.text.clone())),
        ("codec", Js::Str(b.codec.clone())),
        ("fault", Js::Str(what)),
        ("header_end", Js::int(b.layout.header_end as i128)),
        ("blocks", Js::Arr(b.layout.blocks.iter().map(|x| Js::Arr(vec![Js::int(x.start as i128), Js::int(x.end as i128), Js::int(x.count as i128)])).collect())),
        ("file", bytes_js(&b.file)),
    ])
}

pub fn check_cut(b: &Built, cut: usize) -> CaseResult {
    let damaged = &b.file[..cut];
    let out = guard(|| read_damaged(damaged)).map_err(|p| Fail::new(format!("C14/panic/{}", p.key_loc()), format!("cut at {cut}: {}", p.msg)).with(fdetail(b, format!("cut at {cut}"))))?;
    let complete = b.layout.blocks.iter().filter(|x| x.end <= cut).count();
    let boundary = cut == b.layout.header_end || b.layout.blocks.iter().any(|x| x.end == cut);
    match out {
        Outcome::OpenFailed(e) => {
            if cut >= b.layout.header_end {
                return Err(Fail::new("C14/cut-after-header-open-failed", format!("cut at {cut} (header ends at {}): {e}", b.layout.header_end)).with(fdetail(b, format!("cut at {cut}"))));
            }
            Ok(())
        }
        Outcome::Read { values, errors, first_error, items_after_error } => {
            if cut < b.layout.header_end {
                return Err(Fail::new("C14/cut-in-header-opened", format!("cut at {cut} inside the header ({}) but the file opened", b.layout.header_end)).with(fdetail(b, format!("cut at {cut}"))));
            }
            if let Err(m) = expect_prefix(b, &values, complete) {
                return Err(Fail::new("C14/cut-not-a-true-prefix", format!("cut at {cut}: {m}")).with(fdetail(b, format!("cut at {cut}"))));
            }
            if items_after_error > 0 || errors > 1 {
                return Err(Fail::new("C14/continues-after-error", format!("cut at {cut}: {errors} errors, {items_after_error} items after the first")).with(fdetail(b, format!("cut at {cut}"))));
            }
            if boundary && errors != 0 {
                return Err(Fail::new("C14/boundary-cut-reported-error", format!("cut at {cut} is a block boundary but an error was reported: {first_error:?}")).with(fdetail(b, format!("cut at {cut}"))));
            }
            if !boundary && errors != 1 {
                // where inside the block was the cut?
                let blk = b.layout.blocks.iter().find(|x| x.start < cut && cut < x.end);
                let wher = match blk {
                    Some(x) => {
                        let count_len = crate::refbin::long_bytes(x.count).len();
                        if cut - x.start < count_len { "in-block-count" } else { "in-block-body" }
                    }
                    None => "?",
                };
                return Err(Fail::new(format!("C14/silent-truncation/{wher}"), format!("cut at {cut} inside a block ended the iteration without an error")).with(fdetail(b, format!("cut at {cut}"))));
            }
            deser_agrees(b, damaged, values.len(), errors, &format!("cut at {cut}"))
        }
    }
}

pub fn check_marker(b: &Built, which: Option<usize>, byte: usize, mask: u8) -> CaseResult {
    // which = None: header marker; Some(k): trailing marker of block k
    let pos = match which {
        None => b.layout.header_end - 16 + byte,
        Some(k) => b.layout.blocks[k].end - 16 + byte,
    };
    let mut damaged = b.file.clone();
    damaged[pos] ^= mask;
    let what = format!("marker {which:?} byte {byte} xor {mask:#x} (offset {pos})");
    let out = guard(|| read_damaged(&damaged)).map_err(|p| Fail::new(format!("C14/panic/{}", p.key_loc()), format!("{what}: {}", p.msg)).with(fdetail(b, what.clone())))?;
    let good_blocks = which.unwrap_or(0);
    match out {
        Outcome::OpenFailed(e) => Err(Fail::new("C14/marker-open-failed", format!("{what}: {e}")).with(fdetail(b, what))),
        Outcome::Read { values, errors, items_after_error, .. } => {
            if let Err(m) = expect_prefix(b, &values, good_blocks) {
                return Err(Fail::new("C14/marker-wrong-values", format!("{what}: {m}")).with(fdetail(b, what)));
            }
            if errors != 1 || items_after_error != 0 {
                return Err(Fail::new("C14/marker-not-reported", format!("{what}: {errors} errors, {items_after_error} items after")).with(fdetail(b, what)));
            }
            deser_agrees(b, &damaged, values.len(), errors, &what)
        }
    }
}

pub fn check_magic(b: &Built, byte: usize, mask: u8) -> CaseResult {
    let mut damaged = b.file.clone();
    damaged[byte] ^= mask;
    let what = format!("magic byte {byte} xor {mask:#x}");
    match guard(|| read_damaged(&damaged)).map_err(|p| Fail::new(format!("C14/panic/{}", p.key_loc()), p.msg).with(fdetail(b, what.clone())))? {
        Outcome::OpenFailed(_) => Ok(()),
        Outcome::Read { .. } => Err(Fail::new("C14/bad-magic-opened", what.clone()).with(fdetail(b, what))),
    }
}

pub fn case_file(c: &mut Choices, log: &mut CaseLog) -> CaseResult {
    let b = build_file(c)?;
    log.label("file");
    log.label(&format!("codec:{}", b.codec.split('/').next().unwrap_or("")));
    if b.blocks.iter().any(|v| v.len() >= 64) {
        log.label("two_byte_count");
    }
    let fh = fnv(&b.file);
    log.sample = Some(Js::obj(vec![
        ("schema", Js::Str(b.sub.text.clone())),
        ("codec", Js::Str(b.codec.clone())),
        ("file_len", Js::int(b.file.len() as i128)),
        ("block_counts", Js::Arr(b.blocks.iter().map(|v| Js::int(v.len() as i128)).collect())),
        ("faults", Js::str("every cut offset; every marker byte x {0x01,0x80,0xff}; every magic byte x masks")),
    ]));
    // pristine file reads completely
    match read_damaged(&b.file) {
        Outcome::Read { values, errors: 0, .. } => expect_prefix(&b, &values, b.blocks.len()).map_err(|m| Fail::new("C14/pristine", m).with(fdetail(&b, "none".into())))?,
        _ => return Err(Fail::new("C14/pristine", "pristine file does not read").with(fdetail(&b, "none".into()))),
    }
    for cut in 0..b.file.len() {
        check_cut(&b, cut)?;
        log.sub_evals += 1;
        let boundary = cut == b.layout.header_end || b.layout.blocks.iter().any(|x| x.end == cut);
        if !boundary {
            log.sub_nontrivial.push(fh ^ (cut as u64).wrapping_mul(0x9E37_79B9_7F4A_7C15));
        }
    }
    let masks = [0x01u8, 0x80, 0xff];
    for which in std::iter::once(None).chain((0..b.blocks.len()).map(Some)) {
        for byte in 0..16 {
            for m in masks {
                check_marker(&b, which, byte, m)?;
                log.sub_evals += 1;
                log.sub_nontrivial.push(fh ^ fnv(format!("{which:?}/{byte}/{m}").as_bytes()));
            }
        }
    }
    for byte in 0..4 {
        for m in masks {
            check_magic(&b, byte, m)?;
            log.sub_evals += 1;
            log.sub_nontrivial.push(fh ^ fnv(format!("magic/{byte}/{m}").as_bytes()));
        }
    }
    Ok(())
}

pub fn dispatch(campaign: &str, c: &mut Choices, log: &mut CaseLog) -> Option<CaseResult> {
    match campaign {
        "file" => Some(case_file(c, log)),
        _ => None,
    }
}

pub fn run(mut chk: Check) -> ! {
    chk.rule = "per generated multi-block file (2-5 blocks, every codec, block counts 1-3 / 4-63 / 64-203 so that 1- and 2-byte count varints occur, zero-width/fixed-width/variable-width items): \
        EVERY byte offset as a cut point; every byte of the header marker and of every block's trailing marker xor {0x01,0x80,0xff}; every magic byte xor the same masks. \
        Expected outcome computed from the block layout read by the independent container reader. Non-trivial: cuts that are not block boundaries and all alterations; distinct by (file hash, fault)."
        .into();
    chk.assumptions = vec!["block boundaries come from the harness's independent container reader on the pristine file".into()];
    chk.replay_files(dispatch);
    let n = chk.scale(4000, 40_000);
    chk.campaign(CampaignCfg::new("file", n).len(0, 3000), case_file);
    chk.require_label("file:two_byte_count", "file:file", 10.0);
    chk.finish()
}
