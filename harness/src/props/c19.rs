//! C19: process-wide settings are first-set-wins, uniformly enforced and thread-safe.
//!
//! The settings can be written once per process, so every generated schedule runs in
//! a fresh child process (`avro-verif C19 --child 0`, schedule in VERIF_C19_SCHED).
//! The child starts 2-8 threads that set and/or use ONE setting for the first time,
//! either racing from a spin barrier or strictly one after another, records what every
//! thread was told and what it saw, and (for the allocation limit) probes every decoder
//! at w-1 / w / w+1. The parent judges the report.

use crate::choices::{fnv, Choices};
use crate::json::{self, Js};
use crate::runner::*;
use apache_avro::error::Details;
use apache_avro::schema_equality::{set_schemata_equality_comparator, SchemataEq, StructFieldEq};
use apache_avro::types::Value;
use apache_avro::validator::*;
use apache_avro::reader::datum::GenericDatumReader;
use apache_avro::writer::datum::GenericDatumWriter;
use apache_avro::{AvroResult, Codec, Reader, Schema};
use std::sync::atomic::{AtomicBool, AtomicU64, AtomicUsize, Ordering::SeqCst};
use std::sync::Arc;

pub const KINDS: [&str; 7] = ["limit", "human_readable", "name_validator", "namespace_validator", "enum_symbol_validator", "field_name_validator", "comparator"];

const LIMITS: [u64; 36] = [
    0, 1, 2, 3, 7, 55, 56, 57, 80, 81, 127, 128, 129, 1000, 4095, 4096, 4097, 65535, 65536, 1 << 20, (1 << 20) + 1, 1 << 22, 1 << 24,
    (512 << 20) - 1, 512 << 20, (512 << 20) + 1, 1 << 31, (1 << 32) - 1, 1 << 32, (1 << 32) + 1, 1 << 33, i64::MAX as u64, (i64::MAX as u64) + 1, u64::MAX - 1, u64::MAX, 12345,
];
const DEFAULT_LIMIT: u64 = 512 << 20;
/// limits up to here are probed at w-1 / w / w+1
const PROBE_MAX: u64 = (1 << 32) + 1;
/// payload-carrying probes and codec probes up to here
const PAYLOAD_MAX: u64 = 1 << 20;
const CODEC_MAX: u64 = 1 << 22;

#[derive(Clone, Debug)]
pub struct ThreadPlan {
    /// None = user (first use with the default), Some(v) = setter proposing v
    /// (limit: the value; human readable: 0/1; validators and comparator: ignored, the marker is the thread index)
    pub set: Option<u64>,
    pub delay: u64,
    pub followups: Vec<u64>,
}

#[derive(Clone, Debug)]
pub struct Schedule {
    pub kind: usize,
    pub sequential: bool,
    /// allocation limit only: probe every decoder around the value in force afterwards
    pub tail: bool,
    pub threads: Vec<ThreadPlan>,
}

impl Schedule {
    pub fn generate(c: &mut Choices) -> Schedule {
        let kind = c.weighted(&[6, 3, 2, 2, 2, 2, 3]);
        let sequential = c.chance(1, 4);
        let tail = kind == 0 && (sequential || c.chance(1, 3));
        let n = 2 + c.pick(7);
        let mut threads = vec![];
        for _ in 0..n {
            let set = if c.chance(1, 4) {
                None
            } else {
                Some(match kind {
                    0 => {
                        if c.chance(1, 6) {
                            let raw = c.raw();
                            raw >> (c.pick(64) as u32)
                        } else {
                            LIMITS[c.pick(LIMITS.len())]
                        }
                    }
                    1 => c.pick(2) as u64,
                    _ => 0,
                })
            };
            // nanoseconds after the common release time
            let delay = [0u64, 0, 0, 0, 20, 50, 100, 300, 1000, 10_000, 100_000][c.pick(11)];
            let nf = c.pick(4);
            let followups = (0..nf).map(|_| c.pick(8) as u64).collect();
            threads.push(ThreadPlan { set, delay, followups });
        }
        Schedule { kind, sequential, tail, threads }
    }

    pub fn to_js(&self) -> Js {
        Js::obj(vec![
            ("kind", Js::str(KINDS[self.kind])),
            ("sequential", Js::Bool(self.sequential)),
            ("tail", Js::Bool(self.tail)),
            (
                "threads",
                Js::Arr(
                    self.threads
                        .iter()
                        .map(|t| {
                            Js::obj(vec![
                                ("set", t.set.map(|v| Js::Str(v.to_string())).unwrap_or(Js::Null)),
                                ("delay", Js::int(t.delay as i128)),
                                ("followups", Js::Arr(t.followups.iter().map(|f| Js::int(*f as i128)).collect())),
                            ])
                        })
                        .collect(),
                ),
            ),
        ])
    }

    pub fn from_js(js: &Js) -> Option<Schedule> {
        let kind = KINDS.iter().position(|k| Some(*k) == js.get("kind").and_then(|x| x.as_str()))?;
        let sequential = matches!(js.get("sequential"), Some(Js::Bool(true)));
        let tail = matches!(js.get("tail"), Some(Js::Bool(true)));
        let mut threads = vec![];
        for t in js.get("threads")?.as_arr()? {
            let set = match t.get("set")? {
                Js::Null => None,
                Js::Str(s) => Some(s.parse().ok()?),
                _ => return None,
            };
            let delay = t.get("delay")?.as_i128()? as u64;
            let followups = t.get("followups")?.as_arr()?.iter().filter_map(|f| f.as_i128()).map(|f| f as u64).collect();
            threads.push(ThreadPlan { set, delay, followups });
        }
        Some(Schedule { kind, sequential, tail, threads })
    }

    /// first actions that can conflict: two different proposals, or a proposal and a default use
    pub fn conflicting(&self) -> bool {
        let mut seen: Vec<Option<u64>> = vec![];
        for (i, t) in self.threads.iter().enumerate() {
            let v = match (self.kind, t.set) {
                (_, None) => None,
                (0 | 1, Some(v)) => Some(v),
                (_, Some(_)) => Some(i as u64),
            };
            if !seen.contains(&v) {
                seen.push(v);
            }
        }
        seen.len() >= 2
    }
}

// ------------------------------------------------------------------ child side

struct DefaultRules;
impl SchemaNameValidator for DefaultRules {}
impl SchemaNamespaceValidator for DefaultRules {}
impl EnumSymbolNameValidator for DefaultRules {}
impl RecordFieldNameValidator for DefaultRules {}

struct Marked(usize);
fn marker(prefix: &str, k: usize) -> String {
    format!("{prefix}-{k}")
}
impl SchemaNameValidator for Marked {
    fn validate(&self, schema_name: &str) -> AvroResult<usize> {
        if schema_name == marker("m", self.0) {
            Ok(0)
        } else {
            SchemaNameValidator::validate(&DefaultRules, schema_name)
        }
    }
}
impl SchemaNamespaceValidator for Marked {
    fn validate(&self, namespace: &str) -> AvroResult<()> {
        if namespace == marker("n", self.0) {
            Ok(())
        } else {
            SchemaNamespaceValidator::validate(&DefaultRules, namespace)
        }
    }
}
impl EnumSymbolNameValidator for Marked {
    fn validate(&self, symbol: &str) -> AvroResult<()> {
        if symbol == marker("s", self.0) {
            Ok(())
        } else {
            EnumSymbolNameValidator::validate(&DefaultRules, symbol)
        }
    }
}
impl RecordFieldNameValidator for Marked {
    fn validate(&self, field_name: &str) -> AvroResult<()> {
        if field_name == marker("f", self.0) {
            Ok(())
        } else {
            RecordFieldNameValidator::validate(&DefaultRules, field_name)
        }
    }
}

fn prim(i: usize) -> Schema {
    [Schema::Null, Schema::Boolean, Schema::Int, Schema::Long, Schema::Float, Schema::Double, Schema::Bytes, Schema::String][i].clone()
}
/// pair k of distinct primitives
fn prim_pair(k: usize) -> (Schema, Schema) {
    let mut n = 0;
    for a in 0..8 {
        for b in (a + 1)..8 {
            if n == k {
                return (prim(a), prim(b));
            }
            n += 1;
        }
    }
    unreachable!()
}
fn prim_index(s: &Schema) -> Option<usize> {
    (0..8).find(|i| std::mem::discriminant(&prim(*i)) == std::mem::discriminant(s))
}

#[derive(Debug)]
struct MarkedEq(usize);
impl SchemataEq for MarkedEq {
    fn compare(&self, a: &Schema, b: &Schema) -> bool {
        let (x, y) = prim_pair(self.0);
        if let (Some(ia), Some(ib), Some(ix), Some(iy)) = (prim_index(a), prim_index(b), prim_index(&x), prim_index(&y)) {
            if (ia, ib) == (ix, iy) || (ia, ib) == (iy, ix) {
                return true;
            }
        }
        StructFieldEq { include_attributes: false }.compare(a, b)
    }
}

struct HrProbe;
impl serde::Serialize for HrProbe {
    fn serialize<S: serde::Serializer>(&self, s: S) -> Result<S::Ok, S::Error> {
        if s.is_human_readable() { s.serialize_str("hr") } else { s.serialize_str("bin") }
    }
}
struct HrSeen(bool);
impl<'de> serde::Deserialize<'de> for HrSeen {
    fn deserialize<D: serde::Deserializer<'de>>(d: D) -> Result<Self, D::Error> {
        let hr = d.is_human_readable();
        let _s = String::deserialize(d)?;
        Ok(HrSeen(hr))
    }
}

fn varint(n: u64) -> Vec<u8> {
    // zig-zag of a non-negative long
    let mut z = (n as u128) << 1;
    let mut out = vec![];
    loop {
        let b = (z & 0x7f) as u8;
        z >>= 7;
        if z == 0 {
            out.push(b);
            break;
        }
        out.push(b | 0x80);
    }
    out
}

fn classify<T>(r: Result<AvroResult<T>, PanicInfo>) -> String {
    match r {
        Err(p) => format!("panic:{}:{}", p.short_loc(), p.msg),
        Ok(Ok(_)) => "ok".into(),
        Ok(Err(e)) => match e.details() {
            Details::MemoryAllocation { .. } => "limit".into(),
            _ => format!("error:{e}"),
        },
    }
}

const CONTAINER_PROBES: [&str; 2] = ["container_block_size", "container_block_count"];

fn container_header(schema: &str) -> Vec<u8> {
    let mut out = vec![b'O', b'b', b'j', 1];
    out.extend(varint(1));
    out.extend(varint(11));
    out.extend(b"avro.schema");
    out.extend(varint(schema.len() as u64));
    out.extend(schema.as_bytes());
    out.extend(varint(0));
    out.extend([7u8; 16]);
    out
}

/// One decoder entry point given a declared length; `payload` = supply the bytes as well.
fn probe(name: &str, n: u64, payload: bool) -> String {
    let t0 = std::time::Instant::now();
    let r = probe_inner(name, n, payload);
    if std::env::var("VERIF_C19_TIMING").is_ok() && t0.elapsed().as_millis() >= 20 {
        eprintln!("probe {name} n={n} payload={payload}: {} ms -> {}", t0.elapsed().as_millis(), r.chars().take(60).collect::<String>());
    }
    r
}

fn probe_inner(name: &str, n: u64, payload: bool) -> String {
    let body = |n: u64| -> Vec<u8> {
        let mut d = varint(n);
        if payload {
            d.extend(std::iter::repeat(b'a').take(n as usize));
        }
        d
    };
    let generic = |schema: &str, data: Vec<u8>| -> String {
        let schema = match Schema::parse_str(schema) {
            Ok(s) => s,
            Err(e) => return format!("schema-error:{e}"),
        };
        classify(guard(|| GenericDatumReader::builder(&schema).build().and_then(|r| r.read_value(&mut &data[..]))))
    };
    match name {
        "generic_bytes" => generic("\"bytes\"", body(n)),
        "generic_string" => generic("\"string\"", body(n)),
        "generic_decimal_bytes" => generic(r#"{"type":"bytes","logicalType":"decimal","precision":4}"#, body(n)),
        "generic_fixed" => generic(&format!(r#"{{"type":"fixed","name":"F","size":{n}}}"#), if payload { vec![b'a'; n as usize] } else { vec![] }),
        "generic_array" => generic(r#"{"type":"array","items":"int"}"#, varint(n)),
        "generic_map" => generic(r#"{"type":"map","values":"int"}"#, varint(n)),
        "generic_array_two_blocks" => {
            // two blocks of n zero-width items each: the limit applies to the array, not to a block
            let mut d = varint(n);
            d.extend(varint(n));
            d.extend(varint(0));
            generic(r#"{"type":"array","items":"null"}"#, d)
        }
        "generic_array_negative_count" => {
            // negative count + byte size
            let mut d = vec![];
            crate::refbin::put_long(-(n.min(i64::MAX as u64) as i64), &mut d);
            d.extend(varint(0));
            generic(r#"{"type":"array","items":"int"}"#, d)
        }
        "serde_bytes" => {
            let data = body(n);
            classify(guard(|| GenericDatumReader::builder(&Schema::Bytes).build().and_then(|r| r.read_deser::<serde_bytes::ByteBuf>(&mut &data[..]))))
        }
        "serde_string" => {
            let data = body(n);
            classify(guard(|| GenericDatumReader::builder(&Schema::String).build().and_then(|r| r.read_deser::<String>(&mut &data[..]))))
        }
        "serde_array" => {
            let data = varint(n);
            let schema = Schema::parse_str(r#"{"type":"array","items":"int"}"#).unwrap();
            classify(guard(|| GenericDatumReader::builder(&schema).build().and_then(|r| r.read_deser::<Vec<i32>>(&mut &data[..]))))
        }
        "serde_map" => {
            let data = varint(n);
            let schema = Schema::parse_str(r#"{"type":"map","values":"int"}"#).unwrap();
            classify(guard(|| GenericDatumReader::builder(&schema).build().and_then(|r| r.read_deser::<std::collections::HashMap<String, i32>>(&mut &data[..]))))
        }
        "container_block_size" => {
            let mut file = container_header("\"bytes\"");
            file.extend(varint(1));
            file.extend(varint(n));
            classify(guard(|| {
                let mut r = Reader::new(&file[..])?;
                match r.next() {
                    Some(Ok(_)) | None => Ok(()),
                    Some(Err(e)) => Err(e),
                }
            }))
        }
        "container_block_count" => {
            let mut file = container_header("\"int\"");
            file.extend(varint(n));
            file.extend(varint(0));
            classify(guard(|| {
                let mut r = Reader::new(&file[..])?;
                match r.next() {
                    Some(Ok(_)) | None => Ok(()),
                    Some(Err(e)) => Err(e),
                }
            }))
        }
        other => {
            // codec:<name>: n zero bytes compressed by the library, then decompressed
            let codec = match other {
                "codec_deflate" => Codec::Deflate(Default::default()),
                "codec_snappy" => Codec::Snappy,
                "codec_zstandard" => Codec::Zstandard(Default::default()),
                "codec_bzip2" => Codec::Bzip2(apache_avro::Bzip2Settings::new(1)),
                "codec_xz" => Codec::Xz(apache_avro::XzSettings::new(0)),
                _ => return "unknown-probe".into(),
            };
            let mut buf = vec![0u8; n as usize];
            if let Err(e) = codec.compress(&mut buf) {
                return format!("compress-error:{e}");
            }
            let r = guard(|| codec.decompress(&mut buf));
            match &r {
                Ok(Ok(())) if buf.len() as u64 != n => format!("error:decompressed {} bytes for {n}", buf.len()),
                _ => classify(r),
            }
        }
    }
}

const EXACT_PROBES: [&str; 6] = ["generic_bytes", "generic_string", "generic_decimal_bytes", "generic_fixed", "serde_bytes", "serde_string"];
const COUNT_PROBES: [&str; 5] = ["generic_array", "generic_map", "generic_array_negative_count", "serde_array", "serde_map"];
const CODEC_PROBES: [&str; 5] = ["codec_deflate", "codec_snappy", "codec_zstandard", "codec_bzip2", "codec_xz"];

/// observation of the value in force, as a string that must be identical for all observers
fn observe(kind: usize, which: u64, nthreads: usize) -> (String, String) {
    match kind {
        0 => match which % 4 {
            0 | 1 => ("ret".into(), apache_avro::util::max_allocation_bytes(777 + which as usize).to_string()),
            2 => ("decode3".into(), probe("generic_bytes", 3, true)),
            _ => ("decode70000".into(), probe("serde_string", 70000, true)),
        },
        1 => {
            let schema = Schema::String;
            match which % 5 {
                0 => ("ret".into(), apache_avro::util::set_serde_human_readable(which % 2 == 0).to_string()),
                1 => ("to_value".into(), match apache_avro::to_value(HrProbe) {
                    Ok(Value::String(s)) => (s == "hr").to_string(),
                    other => format!("unexpected:{other:?}"),
                }),
                2 => ("from_value".into(), match apache_avro::from_value::<HrSeen>(&Value::String("x".into())) {
                    Ok(h) => h.0.to_string(),
                    Err(e) => format!("error:{e}"),
                }),
                3 => ("write_ser".into(), {
                    let mut out = vec![];
                    match GenericDatumWriter::builder(&schema).build().and_then(|w| w.write_ser(&mut out, &HrProbe)) {
                        Ok(_) => (out == [4, b'h', b'r']).to_string(),
                        Err(e) => format!("error:{e}"),
                    }
                }),
                _ => ("read_deser".into(), {
                    let data = [2u8, b'x'];
                    match GenericDatumReader::builder(&schema).build().and_then(|r| r.read_deser::<HrSeen>(&mut &data[..])) {
                        Ok(h) => h.0.to_string(),
                        Err(e) => format!("error:{e}"),
                    }
                }),
            }
        }
        2..=5 => {
            // which markers does the validator in force accept; plus two sanity probes
            let text = |k: &str| match kind {
                2 => format!(r#"{{"type":"fixed","name":"{k}","size":1}}"#),
                3 => format!(r#"{{"type":"fixed","name":"X","namespace":"{k}","size":1}}"#),
                4 => format!(r#"{{"type":"enum","name":"E","symbols":["{k}"]}}"#),
                _ => format!(r#"{{"type":"record","name":"R","fields":[{{"name":"{k}","type":"int"}}]}}"#),
            };
            let prefix = ["m", "n", "s", "f"][kind - 2];
            let mut acc = vec![];
            for k in 0..nthreads {
                if Schema::parse_str(&text(&marker(prefix, k))).is_ok() {
                    acc.push(k.to_string());
                }
            }
            if Schema::parse_str(&text(&marker(prefix, 99))).is_ok() {
                acc.push("foreign-marker".into());
            }
            if Schema::parse_str(&text("plain_1")).is_err() {
                acc.push("plain-rejected".into());
            }
            ("accepts".into(), acc.join(","))
        }
        _ => {
            let mut acc = vec![];
            for k in 0..nthreads {
                let (a, b) = prim_pair(k);
                let (ab, ba) = (a == b, b == a);
                if ab != ba {
                    acc.push(format!("asymmetric-{k}"));
                }
                if ab {
                    acc.push(k.to_string());
                }
            }
            let (a, b) = prim_pair(27);
            if a == b {
                acc.push("foreign-marker".into());
            }
            if Schema::Int != Schema::Int {
                acc.push("int-differs".into());
            }
            ("equal".into(), acc.join(","))
        }
    }
}

/// first action of a thread: returns (what, outcome)
fn first_action(kind: usize, idx: usize, plan: &ThreadPlan, nthreads: usize) -> (String, String) {
    match (kind, plan.set) {
        (0, Some(v)) => ("set".into(), apache_avro::util::max_allocation_bytes(v as usize).to_string()),
        (0, None) => ("use".into(), probe("generic_bytes", 3, true)),
        (1, Some(v)) => ("set".into(), apache_avro::util::set_serde_human_readable(v == 1).to_string()),
        (1, None) => observe(1, 1 + (idx as u64 % 4), nthreads),
        (2, Some(_)) => ("set".into(), match set_schema_name_validator(Box::new(Marked(idx))) {
            Ok(()) => "ok".into(),
            Err(b) => if b.validate(&marker("m", idx)).is_ok() { "err-own".into() } else { "err-other".into() },
        }),
        (3, Some(_)) => ("set".into(), match set_schema_namespace_validator(Box::new(Marked(idx))) {
            Ok(()) => "ok".into(),
            Err(b) => if b.validate(&marker("n", idx)).is_ok() { "err-own".into() } else { "err-other".into() },
        }),
        (4, Some(_)) => ("set".into(), match set_enum_symbol_name_validator(Box::new(Marked(idx))) {
            Ok(()) => "ok".into(),
            Err(b) => if b.validate(&marker("s", idx)).is_ok() { "err-own".into() } else { "err-other".into() },
        }),
        (5, Some(_)) => ("set".into(), match set_record_field_name_validator(Box::new(Marked(idx))) {
            Ok(()) => "ok".into(),
            Err(b) => if b.validate(&marker("f", idx)).is_ok() { "err-own".into() } else { "err-other".into() },
        }),
        (6, Some(_)) => ("set".into(), match set_schemata_equality_comparator(Box::new(MarkedEq(idx))) {
            Ok(()) => "ok".into(),
            Err(b) => {
                let (x, y) = prim_pair(idx);
                if b.compare(&x, &y) { "err-own".into() } else { "err-other".into() }
            }
        }),
        (2..=5, None) => ("use".into(), if Schema::parse_str(r#"{"type":"record","name":"a.R","fields":[{"name":"f","type":{"type":"enum","name":"E","symbols":["S"]}}]}"#).is_ok() { "ok".into() } else { "rejected".into() }),
        (_, None) => ("use".into(), (Schema::Int == Schema::Long).to_string()),
        _ => unreachable!(),
    }
}

/// Runs in the child: execute the schedule, print the report.
pub fn run_child() -> ! {
    let text = std::env::var("VERIF_C19_SCHED").unwrap_or_else(|_| infra("VERIF_C19_SCHED missing"));
    let js = json::parse_strict(&text).unwrap_or_else(|e| infra(&format!("schedule does not parse: {e:?}")));
    let sched = Schedule::from_js(&js).unwrap_or_else(|| infra("schedule malformed"));
    let n = sched.threads.len();
    let epoch = std::time::Instant::now();
    let release_at = Arc::new(AtomicU64::new(0));
    let ready = Arc::new(AtomicUsize::new(0));
    let go = Arc::new(AtomicBool::new(false));
    let mut reports: Vec<Js> = vec![];
    let run_thread = |idx: usize, plan: ThreadPlan, racing: bool| {
        let (release_at, ready, go) = (release_at.clone(), ready.clone(), go.clone());
        let kind = sched.kind;
        std::thread::Builder::new().stack_size(16 << 20).spawn(move || {
            if racing {
                ready.fetch_add(1, SeqCst);
                while !go.load(SeqCst) {
                    std::hint::spin_loop();
                }
                // all threads aim at the same instant of the monotonic clock (plus their own delay)
                let at = release_at.load(SeqCst) + plan.delay;
                while (epoch.elapsed().as_nanos() as u64) < at {
                    std::hint::spin_loop();
                }
            }
            let start = epoch.elapsed().as_nanos() as u64;
            let first = guard(|| first_action(kind, idx, &plan, n));
            let end = epoch.elapsed().as_nanos() as u64;
            let mut obs = vec![];
            for f in &plan.followups {
                match guard(|| observe(kind, *f, n)) {
                    Ok((what, val)) => obs.push(Js::Arr(vec![Js::Str(what), Js::Str(val)])),
                    Err(p) => obs.push(Js::Arr(vec![Js::str("panic"), Js::Str(format!("{}:{}", p.short_loc(), p.msg))])),
                }
                if racing {
                    std::thread::yield_now();
                }
            }
            let (what, val) = match first {
                Ok(x) => x,
                Err(p) => ("panic".into(), format!("{}:{}", p.short_loc(), p.msg)),
            };
            Js::obj(vec![("first", Js::Str(what)), ("outcome", Js::Str(val)), ("start", Js::int(start as i128)), ("end", Js::int(end as i128)), ("obs", Js::Arr(obs))])
        })
    };
    if sched.sequential {
        for (i, p) in sched.threads.iter().enumerate() {
            let h = run_thread(i, p.clone(), false).unwrap_or_else(|e| infra(&format!("spawn: {e}")));
            reports.push(h.join().unwrap_or_else(|_| infra("thread join")));
        }
    } else {
        let handles: Vec<_> = sched.threads.iter().enumerate().map(|(i, p)| run_thread(i, p.clone(), true).unwrap_or_else(|e| infra(&format!("spawn: {e}")))).collect();
        while ready.load(SeqCst) < n {
            std::thread::yield_now();
        }
        release_at.store(epoch.elapsed().as_nanos() as u64 + 200_000, SeqCst);
        go.store(true, SeqCst);
        for h in handles {
            reports.push(h.join().unwrap_or_else(|_| infra("thread join")));
        }
    }
    // after all threads: every observer once more from the main thread
    let mut fin = vec![];
    for w in 0..8u64 {
        let (what, val) = guard(|| observe(sched.kind, w, n)).unwrap_or_else(|p| ("panic".into(), format!("{}:{}", p.short_loc(), p.msg)));
        fin.push(Js::Arr(vec![Js::Str(what), Js::Str(val)]));
    }
    // enforcement probes (allocation limit only)
    let mut enforce = vec![];
    if sched.kind == 0 && sched.tail {
        let w = apache_avro::util::max_allocation_bytes(1) as u64;
        let mut ns: Vec<u64> = vec![];
        if w <= PROBE_MAX {
            for d in [w.saturating_sub(1), w, w + 1, w / 2, w.saturating_mul(2).saturating_add(3), 0, 1] {
                if !ns.contains(&d) {
                    ns.push(d);
                }
            }
        } else {
            ns.extend([0, 1, 1 << 20, 1 << 31]);
        }
        let vsize = std::mem::size_of::<Value>() as u64;
        for &nn in &ns {
            for name in EXACT_PROBES {
                if name == "generic_fixed" && nn == 0 {
                    continue;
                }
                enforce.push((name, nn, false, probe(name, nn, false)));
                if nn <= PAYLOAD_MAX {
                    enforce.push((name, nn, true, probe(name, nn, true)));
                }
            }
            for name in CONTAINER_PROBES {
                // a block that passes the limit is zero-filled by the reader: keep those below 64 MiB
                if nn >= 1 && !(name == "container_block_size" && nn <= w && nn > (64 << 20)) {
                    enforce.push((name, nn, false, probe(name, nn, false)));
                }
            }
            if nn <= CODEC_MAX {
                for name in CODEC_PROBES {
                    enforce.push((name, nn, true, probe(name, nn, true)));
                }
            }
            // counts: around w itself and around w / size_of::<Value>()
            let mut cs: Vec<u64> = vec![];
            for c in [nn, nn / vsize, (nn / vsize).saturating_sub(1), nn / (4 * 81)] {
                // with a limit beyond the probed range a huge count is the user's own risk: keep to small ones
                if c >= 1 && !cs.contains(&c) && (w <= PROBE_MAX || c <= (1 << 20)) {
                    cs.push(c);
                }
            }
            // an array in two blocks that fit one by one but not together
            if w >= vsize && w <= (16 << 20) {
                let per_block = w / vsize;
                enforce.push(("generic_array_two_blocks", per_block, true, probe("generic_array_two_blocks", per_block, true)));
                if per_block >= 2 {
                    enforce.push(("generic_array_two_blocks", per_block / 2, true, probe("generic_array_two_blocks", per_block / 2, true)));
                }
            }
            for c in cs {
                {
                    for name in COUNT_PROBES {
                        enforce.push((name, c, false, probe(name, c, false)));
                    }
                }
            }
        }
    }
    let report = Js::obj(vec![
        ("threads", Js::Arr(reports)),
        ("final", Js::Arr(fin)),
        ("value_size", Js::int(std::mem::size_of::<Value>() as i128)),
        ("entry_size", Js::int(std::mem::size_of::<(String, Value)>() as i128)),
        (
            "enforce",
            Js::Arr(enforce.into_iter().map(|(name, n, payload, out)| Js::Arr(vec![Js::str(name), Js::Str(n.to_string()), Js::Bool(payload), Js::Str(out)])).collect()),
        ),
    ]);
    println!("C19REPORT {}", report.render());
    std::process::exit(0);
}

// ------------------------------------------------------------------ parent side

fn spawn_child(sched: &Schedule) -> Result<Js, Fail> {
    let exe = std::env::current_exe().unwrap_or_else(|e| infra(&format!("current_exe: {e}")));
    let out = std::process::Command::new(&exe)
        .args(["C19", "--child", "0"])
        .env("VERIF_CHILD", "1")
        .env("VERIF_C19_SCHED", sched.to_js().render())
        .stdin(std::process::Stdio::null())
        .output()
        .unwrap_or_else(|e| infra(&format!("cannot spawn child: {e}")));
    let stdout = String::from_utf8_lossy(&out.stdout);
    if out.status.code() == Some(2) {
        infra(&format!("C19 child reported an infrastructure error: {}", stdout.lines().last().unwrap_or("")));
    }
    let Some(line) = stdout.lines().find(|l| l.starts_with("C19REPORT ")) else {
        let err = String::from_utf8_lossy(&out.stderr);
        return Err(Fail::new("C19/child-died", format!("child ended with {:?} and no report; stderr: {}", out.status, err.chars().take(400).collect::<String>())).with(sched.to_js()));
    };
    json::parse_strict(&line[10..]).map_err(|e| Fail::new("C19/HARNESS/report", format!("{e:?}")))
}

fn pair(js: &Js) -> (String, String) {
    let a = js.as_arr().unwrap_or(&[]);
    (a.first().and_then(|x| x.as_str()).unwrap_or("").to_string(), a.get(1).and_then(|x| x.as_str()).unwrap_or("").to_string())
}

/// Judge one report. Returns the value in force (as a string) on success.
pub fn judge(sched: &Schedule, rep: &Js) -> Result<String, Fail> {
    let kname = KINDS[sched.kind];
    let det = |extra: Vec<(&str, Js)>| {
        let mut v = vec![("schedule", sched.to_js()), ("report", rep.clone())];
        v.extend(extra);
        Js::obj(v)
    };
    let threads = rep.get("threads").and_then(|t| t.as_arr()).unwrap_or(&[]);
    if threads.len() != sched.threads.len() {
        return Err(Fail::new("C19/HARNESS/report-shape", "thread count").with(det(vec![])));
    }
    // 1. exact observations of the value in force
    let mut exact: Vec<(String, String)> = vec![]; // (who, value)
    let mut behaviour: Vec<(String, String, String)> = vec![]; // limit only: (who, what, outcome)
    let mut take = |who: String, what: &str, val: &str, exact: &mut Vec<(String, String)>| -> Result<(), Fail> {
        if what == "panic" || val.starts_with("panic:") {
            return Err(Fail::new(format!("C19/panic/{kname}"), format!("{who}: {val}")));
        }
        match (sched.kind, what) {
            (0, "decode3" | "decode70000" | "use") => behaviour.push((who, what.to_string(), val.to_string())),
            (2..=6, "use") => {
                let want = if sched.kind == 6 { "false" } else { "ok" };
                if val != want {
                    return Err(Fail::new(format!("C19/default-use-misbehaves/{kname}"), format!("{who}: first use gave {val}")));
                }
            }
            (2..=6, "set") => {}
            _ => exact.push((who, val.to_string())),
        }
        Ok(())
    };
    for (i, t) in threads.iter().enumerate() {
        let what = t.get("first").and_then(|x| x.as_str()).unwrap_or("");
        let val = t.get("outcome").and_then(|x| x.as_str()).unwrap_or("");
        take(format!("thread {i} first action ({what})"), what, val, &mut exact).map_err(|f| f.with(det(vec![])))?;
        for (j, o) in t.get("obs").and_then(|x| x.as_arr()).unwrap_or(&[]).iter().enumerate() {
            let (w, v) = pair(o);
            take(format!("thread {i} observation {j} ({w})"), &w, &v, &mut exact).map_err(|f| f.with(det(vec![])))?;
        }
    }
    for (j, o) in rep.get("final").and_then(|x| x.as_arr()).unwrap_or(&[]).iter().enumerate() {
        let (w, v) = pair(o);
        take(format!("main thread afterwards, observation {j} ({w})"), &w, &v, &mut exact).map_err(|f| f.with(det(vec![])))?;
    }
    let Some((who0, w)) = exact.first().cloned() else {
        return Err(Fail::new("C19/HARNESS/no-observation", "").with(det(vec![])));
    };
    for (who, v) in &exact {
        if *v != w {
            return Err(Fail::new(format!("C19/observers-disagree/{kname}"), format!("{who0} saw {w:?} but {who} saw {v:?}")).with(det(vec![])));
        }
    }
    // 2. the value in force is one that was proposed first by somebody
    let proposal = |i: usize| -> String {
        let t = &sched.threads[i];
        match (sched.kind, t.set) {
            (0, Some(v)) => (v as usize).to_string(),
            (0, None) => DEFAULT_LIMIT.to_string(),
            (1, Some(v)) => (v == 1).to_string(),
            (1, None) => "false".into(),
            (_, Some(_)) => i.to_string(),
            (_, None) => String::new(),
        }
    };
    let candidates: Vec<usize> = (0..sched.threads.len()).filter(|i| proposal(*i) == w).collect();
    if candidates.is_empty() {
        return Err(Fail::new(format!("C19/value-from-nowhere/{kname}"), format!("value in force {w:?} was proposed by no thread (nor is it the default used by one)")).with(det(vec![])));
    }
    let start = |i: usize| threads[i].get("start").and_then(|x| x.as_i128()).unwrap_or(0);
    let end = |i: usize| threads[i].get("end").and_then(|x| x.as_i128()).unwrap_or(0);
    // first-set-wins: some thread proposing w began its first action before any thread finished its own
    let min_end = (0..threads.len()).map(end).min().unwrap_or(0);
    if !candidates.iter().any(|i| start(*i) <= min_end) {
        let first_done = (0..threads.len()).min_by_key(|i| end(*i)).unwrap_or(0);
        return Err(Fail::new(format!("C19/not-first/{kname}"), format!("thread {first_done} (proposing {:?}) completed its first action before any thread proposing {w:?} had started, yet {w:?} is in force", proposal(first_done))).with(det(vec![])));
    }
    // 3. what the setters were told
    match sched.kind {
        0 | 1 => {} // the return value is an exact observation already
        _ => {
            let oks: Vec<usize> = (0..threads.len()).filter(|i| threads[*i].get("first").and_then(|x| x.as_str()) == Some("set") && threads[*i].get("outcome").and_then(|x| x.as_str()) == Some("ok")).collect();
            let want: Vec<usize> = if w.is_empty() { vec![] } else { vec![w.parse().unwrap_or(usize::MAX)] };
            if oks != want {
                return Err(Fail::new(format!("C19/setter-misinformed/{kname}"), format!("setters told Ok: {oks:?}; value in force: {w:?}")).with(det(vec![])));
            }
            for (i, t) in threads.iter().enumerate() {
                if t.get("outcome").and_then(|x| x.as_str()) == Some("err-other") {
                    return Err(Fail::new(format!("C19/setter-misinformed/{kname}"), format!("thread {i}: the rejected setter was handed back something else than its own value")).with(det(vec![])));
                }
            }
        }
    }
    // 4. behaviour under the limit
    if sched.kind == 0 {
        let wv: u64 = w.parse().map_err(|_| Fail::new("C19/HARNESS/limit-parse", w.clone()))?;
        for (who, what, out) in &behaviour {
            let n = if what == "decode70000" { 70000 } else { 3 };
            let want = if n <= wv { "ok" } else { "limit" };
            if out != want {
                return Err(Fail::new(format!("C19/limit-not-applied/{what}"), format!("{who}: a {n}-byte value gave {out:?} under limit {wv}")).with(det(vec![])));
            }
        }
        let vsize = rep.get("value_size").and_then(|x| x.as_i128()).unwrap_or(56) as u64;
        let esize = rep.get("entry_size").and_then(|x| x.as_i128()).unwrap_or(80) as u64;
        for e in rep.get("enforce").and_then(|x| x.as_arr()).unwrap_or(&[]) {
            let a = e.as_arr().unwrap_or(&[]);
            let name = a.first().and_then(|x| x.as_str()).unwrap_or("");
            let n: u64 = a.get(1).and_then(|x| x.as_str()).and_then(|s| s.parse().ok()).unwrap_or(0);
            let payload = matches!(a.get(2), Some(Js::Bool(true)));
            let out = a.get(3).and_then(|x| x.as_str()).unwrap_or("");
            if out.starts_with("panic:") {
                return Err(Fail::new(format!("C19/panic/probe/{name}"), format!("declared {n} under limit {wv}: {out}")).with(det(vec![])));
            }
            // Some(true) = must pass the limit, Some(false) = must be refused by it, None = unspecified
            let expect: Option<bool> = if name == "generic_array_two_blocks" {
                // 2n items in all: refused when they need more than the limit, accepted when they fit
                match n.checked_mul(2 * vsize) {
                    Some(b) if b <= wv => Some(true),
                    _ => Some(false),
                }
            } else if EXACT_PROBES.contains(&name) || CODEC_PROBES.contains(&name) {
                Some(n <= wv)
            } else if name == "container_block_size" {
                if wv < 4096 { None } else { Some(n <= wv) }
            } else if name == "container_block_count" {
                if wv < 4096 { None } else if n > wv { Some(false) } else { None }
            } else if n > wv {
                Some(false)
            } else if name.starts_with("generic_map") || name == "serde_map" {
                if n.checked_mul(4 * (esize + 1)).map(|b| b <= wv).unwrap_or(false) { Some(true) } else { None }
            } else if n.checked_mul(vsize).map(|b| b <= wv).unwrap_or(false) {
                Some(true)
            } else {
                None
            };
            let refused = out == "limit";
            let passed = if payload { out == "ok" } else { out.starts_with("error:") || out == "ok" };
            match expect {
                Some(true) if !passed => {
                    let class = if refused { "refused-below-limit" } else { "error-below-limit" };
                    return Err(Fail::new(format!("C19/{class}/{name}"), format!("declared length {n} (payload supplied: {payload}) under limit {wv}: {out}")).with(det(vec![])));
                }
                Some(false) if !refused => {
                    return Err(Fail::new(format!("C19/accepted-above-limit/{name}"), format!("declared length {n} (payload supplied: {payload}) under limit {wv}: {out}")).with(det(vec![])));
                }
                _ => {}
            }
        }
    }
    Ok(w)
}

pub fn case_schedule(c: &mut Choices, log: &mut CaseLog) -> CaseResult {
    let sched = Schedule::generate(c);
    let kname = KINDS[sched.kind];
    log.label(&format!("kind:{kname}"));
    log.label(if sched.sequential { "mode:sequential" } else { "mode:race" });
    if sched.tail {
        log.label("limit-enforcement-probed");
    }
    log.nontrivial = sched.conflicting();
    if log.nontrivial {
        log.label("conflicting-first-actions");
    }
    if sched.threads.iter().any(|t| t.set.is_none()) && sched.threads.iter().any(|t| t.set.is_some()) {
        log.label("setter-vs-default-user");
    }
    log.hash = fnv(sched.to_js().render().as_bytes());
    // a replayed schedule is run repeatedly: the interleaving is not part of the replay file
    let repeats = if log.strict { 25 } else { 1 };
    let mut last = String::new();
    for _ in 0..repeats {
        let rep = spawn_child(&sched)?;
        last = judge(&sched, &rep)?;
        log.sub_evals += rep.get("enforce").and_then(|e| e.as_arr()).map(|a| a.len() as u64).unwrap_or(0);
        if sched.sequential {
            // deterministic order: the first thread's proposal is in force
            let t0 = &sched.threads[0];
            let want = match (sched.kind, t0.set) {
                (0, Some(v)) => (v as usize).to_string(),
                (0, None) => DEFAULT_LIMIT.to_string(),
                (1, Some(v)) => (v == 1).to_string(),
                (1, None) => "false".into(),
                (_, Some(_)) => "0".into(),
                (_, None) => String::new(),
            };
            if last != want {
                return Err(Fail::new(format!("C19/first-set-does-not-win/{kname}"), format!("threads ran one after another; the first proposed {want:?} but {last:?} is in force")).with(Js::obj(vec![("schedule", sched.to_js()), ("report", rep)])));
            }
        } else {
            let winner_idx = (0..sched.threads.len()).position(|i| {
                let t = &sched.threads[i];
                match (sched.kind, t.set) {
                    (0, Some(v)) => (v as usize).to_string() == last,
                    (0, None) => last == DEFAULT_LIMIT.to_string(),
                    (1, Some(v)) => (v == 1).to_string() == last,
                    (1, None) => last == "false",
                    (_, Some(_)) => i.to_string() == last,
                    (_, None) => last.is_empty(),
                }
            });
            if winner_idx.map(|i| i > 0).unwrap_or(false) {
                log.label("race-won-by-later-thread");
            }
        }
    }
    if sched.kind == 0 {
        let wv: u64 = last.parse().unwrap_or(0);
        log.label(match wv {
            0 => "limit-in-force:0",
            1..=4095 => "limit-in-force:small",
            4096..=PROBE_MAX => "limit-in-force:probed-at-boundary",
            _ => "limit-in-force:huge",
        });
    }
    log.sample = Some(Js::obj(vec![("schedule", sched.to_js()), ("value_in_force", Js::Str(last))]));
    Ok(())
}

pub fn dispatch(campaign: &str, c: &mut Choices, log: &mut CaseLog) -> Option<CaseResult> {
    match campaign {
        "schedule" => Some(case_schedule(c, log)),
        _ => None,
    }
}

pub fn run(mut chk: Check) -> ! {
    chk.rule = "one fresh child process per generated schedule: one of the 7 settings x 2-8 threads, each a setter with its own distinguishable value or a first user relying on the default, released together from a spin barrier after a generated spin delay (or run strictly one after another), each with 0-3 follow-up observations through the setter's return value and through behaviour (decoders, serializers, parsers, schema equality); afterwards the main thread observes through every observer, and for the allocation limit every decoder entry point (generic/serde bytes, string, decimal, fixed, array, map, container block size and count, five codecs) is probed at w-1, w, w+1, w/2, 2w+3, 0, 1 with and without payload. \
        Oracle: all observations agree on one value w; w was proposed by a thread that began its first action before any thread completed one (monotonic clock); in sequential mode w is the first thread's proposal; exactly the winning setter got Ok and rejected setters got their own value back; declared lengths <= w pass the limit and > w are refused as MemoryAllocation. \
        Non-trivial: at least two different first proposals (including default use); distinct by schedule."
        .into();
    chk.assumptions = vec![
        "interleavings are sampled by the OS scheduler (3 concurrent children x up to 8 threads released at a common instant of the monotonic clock plus generated per-thread delays of 0-100 us), not enumerated; a replay file fixes the schedule, not the interleaving, and is therefore re-run 25 times".into(),
        "array/map counts: refusal is required only for count > w and acceptance only when count x size_of::<Value>() (x4 bucket slack for maps) <= w".into(),
        "container probes are judged only for limits >= 4096 (the header itself needs allocations below that)".into(),
    ];
    chk.replay_files(dispatch);
    let n = chk.scale(2400, 60_000);
    // racing threads must really run at the same time: few children at once, each with up to 8 threads
    chk.threads = chk.threads.min(3);
    chk.campaign(CampaignCfg::new("schedule", n).len(0, 120), case_schedule);
    chk.require_label("schedule:conflicting-first-actions", "schedule:schedule", 50.0);
    chk.finish()
}
