//! C03 — container files under arbitrary writer histories (model-based).

use super::common::*;
use crate::choices::{fnv, Choices};
use crate::dynserde::{DynSer, SerPlan};
use crate::json::Js;
use crate::runner::*;
use crate::sgen::SgenCfg;
use crate::spec::*;
use crate::tolib::{from_lib, short, to_lib};
use crate::vgen;
use apache_avro::types::Value;
use apache_avro::writer::datum::GenericDatumWriter;
use apache_avro::{read_marker, Clearable, Reader, Writer};
use std::cell::RefCell;
use std::collections::{BTreeMap, HashMap};
use std::io::Write;
use std::rc::Rc;

#[derive(Clone, Default)]
pub struct SharedSink(pub Rc<RefCell<Vec<u8>>>);

impl Write for SharedSink {
    fn write(&mut self, buf: &[u8]) -> std::io::Result<usize> {
        self.0.borrow_mut().extend_from_slice(buf);
        Ok(buf.len())
    }
    fn flush(&mut self) -> std::io::Result<()> {
        Ok(())
    }
}
impl Clearable for SharedSink {
    fn clear(&mut self) {
        self.0.borrow_mut().clear();
    }
}
impl SharedSink {
    pub fn bytes(&self) -> Vec<u8> {
        self.0.borrow().clone()
    }
    pub fn len(&self) -> usize {
        self.0.borrow().len()
    }
}

pub struct Model {
    pub expected: Vec<V>,
    pub meta: BTreeMap<String, Vec<u8>>,
}

pub fn schema_cfg() -> SgenCfg {
    SgenCfg { node_budget: 16, max_depth: 3, root_record: true, ..SgenCfg::full() }
}

pub struct ReadBack {
    pub values: Vec<Value>,
    pub error: Option<String>,
    pub meta: HashMap<String, Vec<u8>>,
    pub schema_json: String,
}

pub fn read_back(bytes: &[u8]) -> Result<ReadBack, String> {
    let reader = Reader::new(bytes).map_err(|e| format!("{e}"))?;
    let meta = reader.user_metadata().clone();
    let schema_json = serde_json::to_string(reader.writer_schema()).map_err(|e| format!("{e}"))?;
    let mut values = vec![];
    let mut error = None;
    for item in reader {
        match item {
            Ok(v) => values.push(v),
            Err(e) => {
                error = Some(format!("{e}"));
                break;
            }
        }
    }
    Ok(ReadBack { values, error, meta, schema_json })
}

/// A value that validation accepts but the encoder refuses (returns Err) — decided
/// by asking the library's own validate() and a dry run of the unvalidated encoder.
pub fn accepted_but_refused(sub: &Subject, canonical: &Value, c: &mut Choices) -> Option<Value> {
    let SType::Record(_, fields) = &deref(&sub.node, &sub.env).ty else {
        return None;
    };
    let Value::Record(items) = canonical else {
        return None;
    };
    let mut cands: Vec<Value> = vec![];
    for (i, f) in fields.iter().enumerate() {
        let fnode = deref(&f.node, &sub.env);
        if matches!(fnode.logical, Some(Logical::Decimal { .. })) {
            let mut it = items.clone();
            it[i].1 = Value::Bytes(vec![1]);
            cands.push(Value::Record(it));
        }
        if let SType::Union(bs) = &fnode.ty {
            if bs.iter().any(|b| matches!(b.ty, SType::Null)) {
                let mut it = items.clone();
                it.remove(i);
                cands.push(Value::Record(it));
            }
        }
        if matches!(fnode.ty, SType::Record(..)) {
            if let Value::Record(inner) = &items[i].1 {
                let mut it = items.clone();
                it[i].1 = Value::Map(inner.iter().cloned().collect());
                cands.push(Value::Record(it));
            }
        }
    }
    if cands.is_empty() {
        return None;
    }
    let cand = cands.swap_remove(c.pick(cands.len()));
    if !cand.validate(&sub.schema) {
        return None;
    }
    let w = GenericDatumWriter::builder(&sub.schema).validate(false).build().ok()?;
    let mut scratch = vec![];
    match w.write_value_ref(&mut scratch, &cand) {
        Err(_) => Some(cand),
        Ok(_) => None, // silently writes something: C07's business, not a failing append
    }
}

pub fn rejected_value(sub: &Subject, c: &mut Choices) -> Option<Value> {
    let cands = [
        Value::Record(vec![("__nope__".to_string(), Value::Boolean(true))]),
        Value::Fixed(3, vec![1, 2, 3]),
        Value::Array(vec![Value::Record(vec![])]),
        Value::Boolean(true),
        Value::String("__nope__".into()),
    ];
    let k = c.pick(cands.len());
    for i in 0..cands.len() {
        let v = &cands[(k + i) % cands.len()];
        if !v.validate(&sub.schema) {
            return Some(v.clone());
        }
    }
    None
}

struct Env2<'a> {
    sub: &'a Subject,
    md: std::collections::BTreeMap<String, usize>,
    vcfg: vgen::VgenCfg,
}

impl<'a> Env2<'a> {
    fn value(&self, c: &mut Choices) -> (V, Value) {
        let v = vgen::gen_value_cfg(c, &self.sub.node, &self.sub.env, &self.md, &self.vcfg);
        let lv = to_lib(&self.sub.node, &v, &self.sub.env);
        (v, lv)
    }
}

fn fail(key: &str, msg: String, sub: &Subject, trace: &[String], extra: Vec<(&str, Js)>) -> Fail {
    let mut items = vec![("schema", Js::Str(sub.text.clone())), ("history", Js::Arr(trace.iter().map(|t| Js::str(t)).collect()))];
    items.extend(extra);
    Fail::new(key, msg).with(Js::obj(items))
}

/// Compare the file with the model. `complete`: all expected values must be present.
fn check_file(sub: &Subject, sink: &SharedSink, model: &Model, complete: bool, trace: &[String], stage: &str) -> CaseResult {
    let bytes = sink.bytes();
    if bytes.is_empty() {
        if complete {
            return Err(fail("C03/no-output", format!("{stage}: nothing was written"), sub, trace, vec![]));
        }
        return Ok(());
    }
    let rb = match guard(|| read_back(&bytes)) {
        Ok(Ok(rb)) => rb,
        Ok(Err(e)) => return Err(fail("C03/unreadable-header", format!("{stage}: {e}"), sub, trace, vec![("file", bytes_js(&bytes))])),
        Err(p) => return Err(fail("C03/reader-panic", format!("{stage}: {} at {}", p.msg, p.short_loc()), sub, trace, vec![("file", bytes_js(&bytes))])),
    };
    if let Some(e) = &rb.error {
        return Err(fail(
            "C03/unreadable-block",
            format!("{stage}: reading stopped with an error after {} of {} values: {e}", rb.values.len(), model.expected.len()),
            sub,
            trace,
            vec![("file", bytes_js(&bytes))],
        ));
    }
    if rb.values.len() > model.expected.len() || (complete && rb.values.len() != model.expected.len()) {
        return Err(fail(
            if rb.values.len() > model.expected.len() { "C03/extra-values" } else { "C03/lost-values" },
            format!("{stage}: file holds {} values, model {}", rb.values.len(), model.expected.len()),
            sub,
            trace,
            vec![("file", bytes_js(&bytes))],
        ));
    }
    for (i, got) in rb.values.iter().enumerate() {
        let ok = from_lib(&sub.node, got, &sub.env).map(|g| g.sem_eq(&model.expected[i])).unwrap_or(false);
        if !ok {
            return Err(fail(
                "C03/wrong-value",
                format!("{stage}: value {i} is {} but {} was appended", short(got), model.expected[i].to_js().render()),
                sub,
                trace,
                vec![("file", bytes_js(&bytes))],
            ));
        }
    }
    let want_schema = serde_json::to_string(&sub.schema).unwrap_or_default();
    if rb.schema_json != want_schema {
        return Err(fail("C03/schema-differs", format!("{stage}: embedded schema {} differs from the writer's {}", rb.schema_json, want_schema), sub, trace, vec![]));
    }
    let got_meta: BTreeMap<String, Vec<u8>> = rb.meta.into_iter().collect();
    if got_meta != model.meta {
        return Err(fail("C03/metadata-differs", format!("{stage}: user metadata {:?} but model {:?}", got_meta, model.meta), sub, trace, vec![]));
    }
    Ok(())
}

pub fn case_history(c: &mut Choices, log: &mut CaseLog) -> CaseResult {
    let Some(sub) = gen_subject(c, &schema_cfg(), log)? else {
        return Ok(());
    };
    let env = Env2 { sub: &sub, md: min_depths(&sub.env), vcfg: vgen::VgenCfg { big_collections: false, long_strings: false, ..vgen::VgenCfg::small() } };
    let codec = gen_codec(c, true);
    let block_size = [0usize, 1, 24, 64, 16000, 1 << 20][c.pick(6)];
    let mabs = [None, Some(0usize), Some(16)][c.pick(3)];
    let mut marker = [0u8; 16];
    marker.copy_from_slice(&c.bytes(16));
    let mut model = Model { expected: vec![], meta: BTreeMap::new() };
    let mut init_meta: HashMap<String, Value> = HashMap::new();
    for i in 0..c.pick(3) {
        let k = format!("{}{}", ["user.key", "k", "\u{e9}"][c.pick(3)], i);
        let n = c.pick(6);
        let val = c.bytes(n);
        init_meta.insert(k.clone(), Value::Bytes(val.clone()));
        model.meta.insert(k, val);
    }
    let sink = SharedSink::default();
    let mut trace: Vec<String> = vec![format!("config codec={} block_size={block_size} map_array_block={mabs:?} init_meta={}", codec_name(&codec), model.meta.len())];
    log.label("case");
    log.label(&format!("codec:{}", codec_kind(&codec)));

    let mut had_fail_then_ok = false;
    let mut pending_fail = false;
    let mut blocks_hint = 0usize;
    let mut reopened = false;
    let mut drop_finish = false;

    let sessions = 1 + usize::from(c.chance(1, 3));
    for session in 0..sessions {
        let mut writer = if session == 0 {
            Writer::builder()
                .schema(&sub.schema)
                .writer(sink.clone())
                .codec(codec)
                .block_size(block_size)
                .marker(marker)
                .user_metadata(init_meta.clone())
                .maybe_map_array_target_block_size(mabs)
                .build()
                .map_err(|e| fail("C03/writer-build", format!("{e}"), &sub, &trace, vec![]))?
        } else {
            reopened = true;
            let bytes = sink.bytes();
            let m = read_marker(&bytes);
            if m != marker {
                return Err(fail("C03/marker-differs", format!("read_marker returned {m:?}, writer was given {marker:?}"), &sub, &trace, vec![("file", bytes_js(&bytes))]));
            }
            trace.push("reopen append_to_with_codec".into());
            Writer::append_to_with_codec(&sub.schema, sink.clone(), codec, m).map_err(|e| fail("C03/append-to", format!("{e}"), &sub, &trace, vec![]))?
        };
        let nops = 1 + c.pick(if session == 0 { 24 } else { 10 });
        for _ in 0..nops {
            let op = c.weighted(&[6, 4, 3, 3, 4, 2, 2, 2, 4, 3, 3, 3, 3, if session == 0 { 1 } else { 0 }]);
            let before = sink.len();
            match op {
                0..=3 => {
                    let (v, lv) = env.value(c);
                    let r = match op {
                        0 => writer.append_value(lv.clone()),
                        1 => writer.append_value_ref(&lv),
                        2 => writer.unvalidated_append_value(lv.clone()),
                        _ => writer.unvalidated_append_value_ref(&lv),
                    };
                    trace.push(format!("append[{op}] {}", short(&lv)));
                    r.map_err(|e| fail("C03/append-refused", format!("conforming value refused: {e}"), &sub, &trace, vec![]))?;
                    model.expected.push(v);
                    if pending_fail {
                        had_fail_then_ok = true;
                    }
                }
                4 => {
                    let (v, _) = env.value(c);
                    let plan = SerPlan { seed: if c.bool() { 0 } else { c.raw() | 1 } };
                    trace.push(format!("append_ser {}", v.to_js().render()));
                    writer
                        .append_ser(DynSer::new(&sub.node, &v, &sub.env, plan))
                        .map_err(|e| fail("C03/append-ser-refused", format!("conforming value refused by append_ser: {e}"), &sub, &trace, vec![]))?;
                    model.expected.push(v);
                    if pending_fail {
                        had_fail_then_ok = true;
                    }
                }
                5..=7 => {
                    // bulk: extend / extend_from_slice / extend_ser, optionally with a failing element
                    let n = c.pick(4);
                    let vals: Vec<(V, Value)> = (0..n).map(|_| env.value(c)).collect();
                    let bad_at = if c.chance(1, 4) { Some(c.pick(n + 1)) } else { None };
                    let bad = if op == 7 { None } else { bad_at.and_then(|_| rejected_value(&sub, c)) };
                    let mut libs: Vec<Value> = vals.iter().map(|(_, l)| l.clone()).collect();
                    let mut pushed = n;
                    if let (Some(at), Some(b)) = (bad_at, bad.clone()) {
                        libs.insert(at, b);
                        pushed = at;
                    }
                    let r = match op {
                        5 => writer.extend(libs.clone()),
                        6 => writer.extend_from_slice(&libs),
                        _ => {
                            let sers: Vec<DynSer> = vals.iter().map(|(v, _)| DynSer::new(&sub.node, v, &sub.env, SerPlan::default())).collect();
                            writer.extend_ser(sers)
                        }
                    };
                    trace.push(format!("extend[{op}] n={n} bad_at={:?}", bad.as_ref().and(bad_at)));
                    match (&r, bad.is_some()) {
                        (Ok(_), false) => {}
                        (Err(_), true) => {
                            pending_fail = true;
                        }
                        (Ok(_), true) => return Err(fail("C03/invalid-accepted", "extend accepted a value that validate() rejects".into(), &sub, &trace, vec![])),
                        (Err(e), false) => return Err(fail("C03/extend-refused", format!("{e}"), &sub, &trace, vec![])),
                    }
                    for (v, _) in vals.iter().take(pushed) {
                        model.expected.push(v.clone());
                    }
                    if r.is_ok() {
                        blocks_hint += 1;
                        if pending_fail && n > 0 {
                            had_fail_then_ok = true;
                        }
                        check_file(&sub, &sink, &model, true, &trace, "after extend")?;
                    }
                }
                8 => {
                    trace.push("flush".into());
                    writer.flush().map_err(|e| fail("C03/flush-error", format!("{e}"), &sub, &trace, vec![]))?;
                    blocks_hint += 1;
                    check_file(&sub, &sink, &model, true, &trace, "after flush")?;
                }
                9 => {
                    // rejected by validation
                    if let Some(b) = rejected_value(&sub, c) {
                        trace.push(format!("append rejected-by-validation {}", short(&b)));
                        if writer.append_value_ref(&b).is_ok() {
                            return Err(fail("C03/invalid-accepted", "append accepted a value that validate() rejects".into(), &sub, &trace, vec![]));
                        }
                        pending_fail = true;
                        log.label("fail:validation");
                    }
                }
                10 => {
                    // accepted by validation, refused by the encoder midway
                    let (_, lv) = env.value(c);
                    if let Some(b) = accepted_but_refused(&sub, &lv, c) {
                        trace.push(format!("append accepted-but-refused {}", short(&b)));
                        let r = if c.bool() { writer.append_value_ref(&b) } else { writer.unvalidated_append_value_ref(&b) };
                        if r.is_ok() {
                            return Err(fail("C03/refused-value-accepted", "append returned Ok for a value the encoder refuses".into(), &sub, &trace, vec![]));
                        }
                        pending_fail = true;
                        log.label("fail:encoder-midway");
                    }
                }
                11 => {
                    // append_ser failing at a later field
                    if let SType::Record(_, fields) = &deref(&sub.node, &sub.env).ty {
                        if !fields.is_empty() {
                            let (v, _) = env.value(c);
                            let at = if fields.len() > 1 { 1 + c.pick(fields.len() - 1) } else { 0 };
                            let mut ds = DynSer::new(&sub.node, &v, &sub.env, SerPlan::default());
                            ds.sabotage = Some(at);
                            trace.push(format!("append_ser failing at field {at}"));
                            if writer.append_ser(ds).is_ok() {
                                return Err(fail("C03/impossible-accepted", "append_ser accepted an impossible value".into(), &sub, &trace, vec![]));
                            }
                            pending_fail = true;
                            log.label("fail:ser-midway");
                        }
                    }
                }
                12 => {
                    let avro_key = c.chance(1, 4);
                    let key = if avro_key { "avro.custom".to_string() } else { format!("m{}", c.pick(4)) };
                    let n = c.pick(5);
                    let val = c.bytes(n);
                    let header_out = sink.len() > 0 || session > 0;
                    let r = writer.add_user_metadata(key.clone(), &val);
                    trace.push(format!("add_user_metadata {key} -> {}", if r.is_ok() { "Ok" } else { "Err" }));
                    match (r.is_ok(), header_out, avro_key) {
                        (true, true, _) => return Err(fail("C03/metadata-after-header", "add_user_metadata returned Ok although the header is already in the sink".into(), &sub, &trace, vec![])),
                        (true, false, true) => return Err(fail("C03/avro-key-accepted", "add_user_metadata accepted an avro.* key".into(), &sub, &trace, vec![])),
                        (false, false, false) => return Err(fail("C03/metadata-refused", "add_user_metadata refused a legal key before any output".into(), &sub, &trace, vec![])),
                        (true, false, false) => {
                            model.meta.insert(key, val);
                        }
                        _ => {}
                    }
                }
                _ => {
                    trace.push("reset".into());
                    writer.reset();
                    model.expected.clear();
                    model.meta.clear();
                    log.label("reset");
                    if sink.len() != 0 {
                        return Err(fail("C03/reset-left-output", "sink not empty after reset".into(), &sub, &trace, vec![]));
                    }
                    // reset draws a new random marker; nothing to read it from until output exists
                    marker = [0; 16];
                }
            }
            if sink.len() != before && !matches!(op, 5..=8) {
                blocks_hint += 1;
            }
            // whatever is in the sink so far is a readable prefix of the model
            check_file(&sub, &sink, &model, false, &trace, "mid-history")?;
        }
        match c.pick(3) {
            0 => {
                trace.push("finish into_inner".into());
                let _ = writer.into_inner().map_err(|e| fail("C03/into-inner-error", format!("{e}"), &sub, &trace, vec![]))?;
            }
            1 => {
                trace.push("finish flush+drop".into());
                writer.flush().map_err(|e| fail("C03/flush-error", format!("{e}"), &sub, &trace, vec![]))?;
                drop(writer);
                drop_finish = true;
            }
            _ => {
                trace.push("finish drop".into());
                drop(writer);
                drop_finish = true;
            }
        }
        check_file(&sub, &sink, &model, true, &trace, "after finish")?;
        if marker == [0; 16] {
            // after a reset the marker is the library's random one: take it from the file
            let b = sink.bytes();
            if b.len() > 16 {
                marker = read_marker(&b);
            }
        }
    }
    if had_fail_then_ok {
        log.label("fail_then_success");
    }
    if reopened {
        log.label("reopen");
    }
    if drop_finish {
        log.label("drop_finish");
    }
    if blocks_hint >= 2 {
        log.label("multi_block");
    }
    log.nontrivial = had_fail_then_ok || reopened || drop_finish || blocks_hint >= 2;
    log.hash = fnv(format!("{}|{:?}", sub.text, trace).as_bytes());
    log.sample = Some(Js::obj(vec![("schema", Js::Str(sub.text.clone())), ("history", Js::Arr(trace.iter().take(12).map(|t| Js::str(t)).collect()))]));
    Ok(())
}

pub fn dispatch(campaign: &str, c: &mut Choices, log: &mut CaseLog) -> Option<CaseResult> {
    match campaign {
        "history" => Some(case_history(c, log)),
        _ => None,
    }
}

pub fn run(mut chk: Check) -> ! {
    chk.rule = "model-based: generated writer histories (append by value/ref/unvalidated/serde, extend*, flush, failing appends of three kinds, add_user_metadata, reset, finish by into_inner/flush+drop/drop, optional reopen with append_to) x codec x block size; \
        an in-memory list is the model; the file is read back after every operation (readable prefix of the model), after every flush/extend and at the end (exactly the model, schema, metadata). \
        Non-trivial: history with a failed append followed by a success, >=2 blocks, a reopen, or a drop-finish. Distinct by hash of (schema, history trace)."
        .into();
    chk.assumptions = vec![
        "Sink is an in-memory shared buffer that accepts every write completely (short writes are C13)".into(),
        "failing appends are classified by the library's own validate() and a dry run of the unvalidated encoder; values that validate and encode to something (silent corruption) belong to C07 and are not generated here".into(),
    ];
    chk.replay_files(dispatch);
    let n = chk.scale(60_000, 400_000);
    chk.campaign(CampaignCfg::new("history", n).len(0, 900), case_history);
    chk.require_label("history:fail_then_success", "history:case", 5.0);
    chk.require_label("history:reopen", "history:case", 5.0);
    chk.require_label("history:multi_block", "history:case", 5.0);
    chk.require_label("history:drop_finish", "history:case", 5.0);
    chk.finish()
}
