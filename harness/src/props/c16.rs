//! C16 — serde path and generic path agree.

use super::c08::vkey;
use super::common::*;
use crate::choices::{fnv, Choices};
use crate::corpus::*;
use crate::dynserde::{self, DynSer, SerPlan};
use crate::json::Js;
use crate::refbin;
use crate::runner::*;
use crate::sgen::SgenCfg;
use crate::tolib::{from_lib, short};
use crate::vgen;
use apache_avro::reader::datum::GenericDatumReader;
use apache_avro::writer::datum::GenericDatumWriter;
use apache_avro::{from_value, to_value, Schema};

pub const BLOCK_SIZES: &[Option<usize>] = &[None, Some(0), Some(1), Some(16), Some(4096)];

/// Corpus type: serde <-> generic agreement under the type's derived schema.
pub fn check_type<T: Corpus>(name: &str, coincides: bool, c: &mut Choices, log: &mut CaseLog) -> CaseResult {
    let schema: Schema = T::get_schema();
    let v = T::arb(c);
    log.label("case");
    log.label(&format!("type:{name}"));
    log.nontrivial = v.interesting();
    log.hash = fnv(format!("{name}|{v:?}").as_bytes());
    log.sample = Some(Js::obj(vec![("type", Js::str(name)), ("value", Js::Str(format!("{v:?}").chars().take(400).collect())), ("schema", Js::Str(serde_json::to_string(&schema).unwrap_or_default()))]));
    let det = |extra: Vec<(&str, Js)>| {
        let mut items = vec![("type", Js::str(name)), ("value", Js::Str(format!("{v:?}"))), ("schema", Js::Str(serde_json::to_string(&schema).unwrap_or_default()))];
        items.extend(extra);
        Js::obj(items)
    };
    let reader = GenericDatumReader::builder(&schema).build().map_err(|e| Fail::new(format!("C16/reader-build/{name}"), format!("{e}")))?;
    let mut generic_key: Option<String> = None;
    for tbs in BLOCK_SIZES {
        log.sub_evals += 1;
        let w = GenericDatumWriter::builder(&schema).maybe_target_block_size(*tbs).build().map_err(|e| Fail::new(format!("C16/writer-build/{name}"), format!("{e}")))?;
        let mut bytes = vec![];
        let n = guard(|| w.write_ser(&mut bytes, &v))
            .map_err(|p| Fail::new(format!("C16/panic/{}", p.key_loc()), format!("write_ser panicked at {}: {}", p.short_loc(), p.msg)).with(det(vec![])))?
            .map_err(|e| Fail::new(format!("C16/write-ser-error/{name}"), format!("block size {tbs:?}: {e}")).with(det(vec![])))?;
        if n != bytes.len() {
            return Err(Fail::new(format!("C16/byte-count/{name}"), format!("write_ser returned {n}, emitted {} bytes (block size {tbs:?})", bytes.len())).with(det(vec![("bytes", bytes_js(&bytes))])));
        }
        // serde back
        let mut s: &[u8] = &bytes;
        let back: T = guard(|| reader.read_deser::<T>(&mut s))
            .map_err(|p| Fail::new(format!("C16/panic/{}", p.key_loc()), format!("read_deser panicked at {}: {}", p.short_loc(), p.msg)).with(det(vec![("bytes", bytes_js(&bytes))])))?
            .map_err(|e| Fail::new(format!("C16/read-deser-error/{name}"), format!("block size {tbs:?}: {e}")).with(det(vec![("bytes", bytes_js(&bytes))])))?;
        if !back.same(&v) {
            return Err(Fail::new(format!("C16/serde-roundtrip-mismatch/{name}"), format!("deserialized {back:?}")).with(det(vec![("bytes", bytes_js(&bytes))])));
        }
        if !s.is_empty() {
            return Err(Fail::new(format!("C16/read-deser-consumption/{name}"), format!("{} bytes left", s.len())).with(det(vec![("bytes", bytes_js(&bytes))])));
        }
        // generic decoder accepts exactly one conforming datum
        let mut s: &[u8] = &bytes;
        let gv = reader.read_value(&mut s).map_err(|e| Fail::new(format!("C16/generic-rejects/{name}"), format!("the generic decoder rejects the serializer's bytes (block size {tbs:?}): {e}")).with(det(vec![("bytes", bytes_js(&bytes))])))?;
        if !s.is_empty() {
            return Err(Fail::new(format!("C16/generic-consumption/{name}"), format!("{} bytes left after the generic decoder", s.len())).with(det(vec![("bytes", bytes_js(&bytes))])));
        }
        if !gv.validate(&schema) {
            return Err(Fail::new(format!("C16/generic-not-validating/{name}"), format!("{} does not validate", short(&gv))).with(det(vec![("bytes", bytes_js(&bytes))])));
        }
        let k = vkey(&gv);
        match &generic_key {
            None => generic_key = Some(k),
            Some(k0) => {
                if *k0 != k {
                    return Err(Fail::new(format!("C16/block-size-changes-value/{name}"), format!("block size {tbs:?} decodes to a different generic value")).with(det(vec![("bytes", bytes_js(&bytes))])));
                }
            }
        }
        if coincides {
            // schema-less mapping route
            let tv = to_value(&v).map_err(|e| Fail::new(format!("C16/to-value-error/{name}"), format!("{e}")).with(det(vec![])))?;
            let resolved = tv.clone().resolve(&schema).map_err(|e| Fail::new(format!("C16/to-value-resolve-error/{name}"), format!("to_value gives {} which does not resolve against the schema: {e}", short(&tv))).with(det(vec![])))?;
            let w2 = GenericDatumWriter::builder(&schema).build().map_err(|e| Fail::new("C16/writer-build", format!("{e}")))?;
            let b2 = w2.write_value_to_vec(resolved.clone()).map_err(|e| Fail::new(format!("C16/to-value-encode-error/{name}"), format!("{e}")).with(det(vec![])))?;
            let mut s2: &[u8] = &b2;
            let gv2 = reader.read_value(&mut s2).map_err(|e| Fail::new(format!("C16/to-value-decode-error/{name}"), format!("{e}")).with(det(vec![])))?;
            if vkey(&gv2) != vkey(&gv) {
                return Err(Fail::new(format!("C16/to-value-differs/{name}"), format!("to_value+resolve+encode denotes {} but the serializer wrote {}", short(&gv2), short(&gv))).with(det(vec![("bytes", bytes_js(&bytes)), ("generic_bytes", bytes_js(&b2))])));
            }
            let fv: T = from_value::<T>(&gv).map_err(|e| Fail::new(format!("C16/from-value-error/{name}"), format!("{e}")).with(det(vec![])))?;
            if !fv.same(&v) {
                return Err(Fail::new(format!("C16/from-value-differs/{name}"), format!("from_value gives {fv:?}")).with(det(vec![])));
            }
        }
    }
    Ok(())
}

macro_rules! corpus_dispatch {
    ($idx:expr, $c:expr, $log:expr, $f:ident) => {
        match $idx {
            0 => $f::<Inner>("Inner", true, $c, $log),
            1 => $f::<Scalars>("Scalars", true, $c, $log),
            2 => $f::<CharHolder>("CharHolder", true, $c, $log),
            3 => $f::<BigInts>("BigInts", false, $c, $log),
            4 => $f::<BytesHolder>("BytesHolder", false, $c, $log),
            5 => $f::<Opts>("Opts", true, $c, $log),
            6 => $f::<Seqs>("Seqs", true, $c, $log),
            7 => $f::<Maps>("Maps", true, $c, $log),
            8 => $f::<UnitStruct>("UnitStruct", false, $c, $log),
            9 => $f::<Newtype>("Newtype", false, $c, $log),
            10 => $f::<TupleStruct>("TupleStruct", false, $c, $log),
            11 => $f::<Arrays>("Arrays", false, $c, $log),
            12 => $f::<Renamed>("Renamed", true, $c, $log),
            13 => $f::<Skips>("Skips", false, $c, $log),
            14 => $f::<Flattened>("Flattened", false, $c, $log),
            15 => $f::<Transparent>("Transparent", false, $c, $log),
            16 => $f::<Recursive>("Recursive", true, $c, $log),
            17 => $f::<Generic<i64>>("Generic<i64>", true, $c, $log),
            18 => $f::<WithUuid>("WithUuid", false, $c, $log),
            19 => $f::<Plain>("Plain", true, $c, $log),
            20 => $f::<PlainHolder>("PlainHolder", true, $c, $log),
            21 => $f::<ScreamingPlain>("ScreamingPlain", true, $c, $log),
            22 => $f::<UnionOfRecords>("UnionOfRecords", false, $c, $log),
            23 => $f::<UnionHolder>("UnionHolder", false, $c, $log),
            24 => $f::<BareUnion>("BareUnion", false, $c, $log),
            25 => $f::<TagContent>("TagContent", false, $c, $log),
            26 => $f::<InternallyTagged>("InternallyTagged", false, $c, $log),
            27 => $f::<RepeatedComponents>("RepeatedComponents", false, $c, $log),
            28 => $f::<RenameAllFields>("RenameAllFields", false, $c, $log),
            29 => $f::<SnakeEnum>("SnakeEnum", true, $c, $log),
            30 => $f::<Namespaced>("Namespaced", true, $c, $log),
            31 => $f::<DeepNest>("DeepNest", true, $c, $log),
            32 => $f::<TagContentRenamed>("TagContentRenamed", false, $c, $log),
            _ => $f::<TwoInstantiations>("TwoInstantiations", true, $c, $log),
        }
    };
}
pub(crate) use corpus_dispatch;
pub const CORPUS_LEN: usize = 34;
/// C16 needs a schema that matches the type: the last corpus type is C17's known finding
pub const C16_CORPUS_LEN: usize = 33;

pub fn case_corpus(c: &mut Choices, log: &mut CaseLog) -> CaseResult {
    let idx = c.pick(C16_CORPUS_LEN);
    corpus_dispatch!(idx, c, log, check_type)
}

/// Generated schemas through the dynamic serde adapters.
pub fn case_dynamic(c: &mut Choices, log: &mut CaseLog) -> CaseResult {
    let Some(sub) = gen_subject(c, &SgenCfg::full(), log)? else {
        return Ok(());
    };
    let v = vgen::gen_value(c, &sub.node, &sub.env);
    let plan = SerPlan { seed: if c.bool() { 0 } else { c.raw() | 1 } };
    log.label("case");
    log.nontrivial = vgen::nontrivial(&sub.node, &v, &sub.env);
    log.hash = fnv(format!("D|{}|{:?}|{}", sub.text, v, plan.seed).as_bytes());
    let reader = GenericDatumReader::builder(&sub.schema).build().map_err(|e| Fail::new("C16/reader-build", format!("{e}")))?;
    let mut first: Option<String> = None;
    for tbs in BLOCK_SIZES {
        log.sub_evals += 1;
        let w = GenericDatumWriter::builder(&sub.schema).maybe_target_block_size(*tbs).build().map_err(|e| Fail::new("C16/writer-build", format!("{e}")))?;
        let mut bytes = vec![];
        let n = w
            .write_ser(&mut bytes, &DynSer::new(&sub.node, &v, &sub.env, plan))
            .map_err(|e| Fail::new("C16/dynamic/write-ser-error", format!("block size {tbs:?}: {e}")).with(detail(&sub, &v, vec![])))?;
        if n != bytes.len() {
            return Err(Fail::new("C16/dynamic/byte-count", format!("write_ser returned {n}, emitted {} bytes (block size {tbs:?}, call plan {})", bytes.len(), plan.seed)).with(detail(&sub, &v, vec![("bytes", bytes_js(&bytes))])));
        }
        let mut s: &[u8] = &bytes;
        let back = dynserde::with_ctx(&sub.node, &sub.env, c.bool(), || reader.read_deser::<dynserde::DynOut>(&mut s))
            .map_err(|e| Fail::new("C16/dynamic/read-deser-error", format!("{e}")).with(detail(&sub, &v, vec![("bytes", bytes_js(&bytes))])))?;
        if !back.0.sem_eq(&v) || !s.is_empty() {
            return Err(Fail::new("C16/dynamic/serde-roundtrip-mismatch", format!("deserialized {} ({} bytes left)", back.0.to_js().render(), s.len())).with(detail(&sub, &v, vec![("bytes", bytes_js(&bytes))])));
        }
        let mut s: &[u8] = &bytes;
        let gv = reader.read_value(&mut s).map_err(|e| Fail::new("C16/dynamic/generic-rejects", format!("{e}")).with(detail(&sub, &v, vec![("bytes", bytes_js(&bytes))])))?;
        let g = from_lib(&sub.node, &gv, &sub.env).map_err(|m| Fail::new("C16/dynamic/generic-nonconforming", m).with(detail(&sub, &v, vec![("bytes", bytes_js(&bytes))])))?;
        if !g.sem_eq(&v) || !s.is_empty() {
            return Err(Fail::new("C16/dynamic/generic-differs", format!("the generic decoder reads {}", g.to_js().render())).with(detail(&sub, &v, vec![("bytes", bytes_js(&bytes))])));
        }
        match refbin::decode(&sub.node, &sub.env, &bytes) {
            Ok((r, used)) if used == bytes.len() && r.sem_eq(&v) => {}
            other => return Err(Fail::new("C16/dynamic/reference-differs", format!("the reference decoder reads {other:?}")).with(detail(&sub, &v, vec![("bytes", bytes_js(&bytes))]))),
        }
        let k = vkey(&gv);
        match &first {
            None => first = Some(k),
            Some(k0) if *k0 != k => return Err(Fail::new("C16/dynamic/block-size-changes-value", format!("block size {tbs:?}")).with(detail(&sub, &v, vec![]))),
            _ => {}
        }
    }
    Ok(())
}

pub fn dispatch(campaign: &str, c: &mut Choices, log: &mut CaseLog) -> Option<CaseResult> {
    match campaign {
        "corpus" => Some(case_corpus(c, log)),
        "dynamic" => Some(case_dynamic(c, log)),
        _ => None,
    }
}

pub fn run(mut chk: Check) -> ! {
    if let Err(e) = refbin::self_test() {
        infra(&format!("refbin self-test failed: {e}"));
    }
    chk.rule = "corpus: 27 Rust types (all integer widths, floats, char, strings, bytes/fixed via apache_avro::serde helpers, options, sequences incl. nested and long ones, string-keyed maps, unit/newtype/tuple structs, arrays, renamed/rename_all/aliased fields, skipped and defaulted fields, flatten, transparent, recursive, generic, uuid, unit-only enums, union-of-records / bare-union / tag+content / internally tagged enums) with generated values x block sizes {None, 0, 1, 16, 4096}: write_ser count == bytes emitted; read_deser returns an equal value (floats by bit pattern) consuming everything; the generic decoder reads exactly one validating datum, the same for every block size; for the coinciding subset to_value+resolve+encode denotes the same generic value and from_value recovers the Rust value. \
        dynamic: generated (schema, value) through schema-directed dynamic Serialize/Deserialize adapters with varied but equivalent serde calls (struct vs map style, field order, length hints, option vs variant for nullable unions), same oracles plus the reference decoder. Non-trivial: value with a non-empty sequence/map, a skipped/defaulted field or a non-first variant. Distinct by hash of (type or schema, value)."
        .into();
    chk.assumptions = vec!["corpus schemas are the derived ones (the documented supported pairing); a derive defect would surface here as well as in C17".into()];
    chk.replay_files(dispatch);
    let n = chk.scale(400_000, 2_000_000);
    chk.campaign(CampaignCfg::new("corpus", n).len(0, 900), case_corpus);
    chk.campaign(CampaignCfg::new("dynamic", n / 2), case_dynamic);
    chk.finish()
}
