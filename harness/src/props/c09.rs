//! C09 — compatibility verdicts are sound with respect to actual reading.

use super::c08::{gen_pair, pair_detail, step_tag, wcfg, Pair};
use super::common::*;
use crate::choices::{fnv, Choices};
use crate::json::Js;
use crate::refbin;
use crate::runner::*;
use crate::sgen::SgenCfg;
use crate::spec::*;
use crate::specparse::subject_from_text;
use crate::vgen;
use apache_avro::reader::datum::GenericDatumReader;
use apache_avro::schema_compatibility::{Compatibility, SchemaCompatibility};
use apache_avro::Schema;

fn verdict_str(r: &Result<Compatibility, apache_avro::error::CompatibilityError>) -> String {
    match r {
        Ok(Compatibility::Full) => "Full".into(),
        Ok(Compatibility::Partial) => "Partial".into(),
        Err(e) => format!("Err({e})"),
    }
}

fn can_read(w: &Schema, r: &Schema) -> Result<Result<Compatibility, apache_avro::error::CompatibilityError>, Fail> {
    guard(|| SchemaCompatibility::can_read(w, r)).map_err(|p| Fail::new(format!("C09/panic/{}", p.key_loc()), format!("can_read panicked at {}: {}", p.short_loc(), p.msg)))
}

/// Reflexivity, determinism, symmetry of mutual_read for one pair.
fn structural_checks(w: &Subject, r: &Subject, tag: &str, detail: &Js) -> CaseResult {
    for s in [w, r] {
        let v = can_read(&s.schema, &s.schema)?;
        if !matches!(v, Ok(Compatibility::Full)) {
            return Err(Fail::new(format!("C09/not-reflexive/{}", s.node.kind()), format!("can_read(S,S) = {} for S = {}", verdict_str(&v), s.text)).with(detail.clone()));
        }
        let m = guard(|| SchemaCompatibility::mutual_read(&s.schema, &s.schema)).map_err(|p| Fail::new(format!("C09/panic/{}", p.key_loc()), p.msg.clone()))?;
        if !matches!(m, Ok(Compatibility::Full)) {
            return Err(Fail::new(format!("C09/not-reflexive/{}", s.node.kind()), format!("mutual_read(S,S) = {}", verdict_str(&m))).with(detail.clone()));
        }
    }
    // determinism: repeated query, and clones at other addresses (the memo is address-keyed)
    let v1 = can_read(&w.schema, &r.schema)?;
    let v2 = can_read(&w.schema, &r.schema)?;
    let (wc, rc) = (w.schema.clone(), r.schema.clone());
    let v3 = can_read(&wc, &rc)?;
    if verdict_str(&v1) != verdict_str(&v2) || verdict_str(&v1) != verdict_str(&v3) {
        return Err(Fail::new(format!("C09/nondeterministic/{tag}"), format!("{} / {} / clones: {}", verdict_str(&v1), verdict_str(&v2), verdict_str(&v3))).with(detail.clone()));
    }
    // symmetry
    let ab = guard(|| SchemaCompatibility::mutual_read(&w.schema, &r.schema)).map_err(|p| Fail::new(format!("C09/panic/{}", p.key_loc()), p.msg.clone()))?;
    let ba = guard(|| SchemaCompatibility::mutual_read(&r.schema, &w.schema)).map_err(|p| Fail::new(format!("C09/panic/{}", p.key_loc()), p.msg.clone()))?;
    let same = match (&ab, &ba) {
        (Ok(a), Ok(b)) => a == b,
        (Err(_), Err(_)) => true,
        _ => false,
    };
    if !same {
        return Err(Fail::new(format!("C09/mutual-asymmetric/{tag}"), format!("mutual_read(A,B) = {}, mutual_read(B,A) = {}", verdict_str(&ab), verdict_str(&ba))).with(detail.clone()));
    }
    Ok(())
}

/// Full => every sampled value reads. Returns the number of values read.
fn soundness(w: &Subject, r: &Subject, values: &[V], tag: &str, detail: &Js) -> Result<usize, Fail> {
    let v = can_read(&w.schema, &r.schema)?;
    if !matches!(v, Ok(Compatibility::Full)) {
        return Ok(0);
    }
    let rd = GenericDatumReader::builder(&w.schema).reader_schema(&r.schema).build().map_err(|e| Fail::new(format!("C09/unsound/reader-build/{tag}"), format!("verdict Full but the reader cannot be built: {e}")).with(detail.clone()))?;
    for val in values {
        let bytes = refbin::encode_canonical(&w.node, val, &w.env);
        let mut s: &[u8] = &bytes;
        let res = guard(|| rd.read_value(&mut s)).map_err(|p| Fail::new(format!("C09/panic/{}", p.key_loc()), p.msg.clone()))?;
        if let Err(e) = res {
            // root-cause classes first
            let key = if has_logical(&w.node) || has_logical(&r.node) {
                format!("C09/unsound/logical-type/{tag}")
            } else if non_utf8_bytes(val) && {
                // causal test: the same value with its non-UTF-8 byte strings replaced reads fine
                let clean = sanitize(val);
                let b2 = refbin::encode_canonical(&w.node, &clean, &w.env);
                let mut s2: &[u8] = &b2;
                rd.read_value(&mut s2).is_ok()
            } {
                "C09/unsound/bytes-to-string-non-utf8".to_string()
            } else {
                format!("C09/unsound/{tag}")
            };
            return Err(Fail::new(key, format!("can_read = Full but reading {} fails: {e}", val.to_js().render())).with(detail.clone()));
        }
    }
    Ok(values.len())
}

fn has_logical(n: &SNode) -> bool {
    n.logical.is_some()
        || match &n.ty {
            SType::Array(i) | SType::Map(i) => has_logical(i),
            SType::Union(bs) => bs.iter().any(has_logical),
            SType::Record(_, fs) => fs.iter().any(|f| has_logical(&f.node)),
            _ => false,
        }
}

fn sanitize(v: &V) -> V {
    match v {
        V::Bytes(b) if std::str::from_utf8(b).is_err() => V::Bytes(b"ok".to_vec()),
        V::Array(a) => V::Array(a.iter().map(sanitize).collect()),
        V::Record(a) => V::Record(a.iter().map(sanitize).collect()),
        V::Map(m) => V::Map(m.iter().map(|(k, x)| (k.clone(), sanitize(x))).collect()),
        V::Union(i, x) => V::Union(*i, Box::new(sanitize(x))),
        other => other.clone(),
    }
}

fn non_utf8_bytes(v: &V) -> bool {
    match v {
        V::Bytes(b) => std::str::from_utf8(b).is_err(),
        V::Array(a) | V::Record(a) => a.iter().any(non_utf8_bytes),
        V::Map(m) => m.iter().any(|(_, x)| non_utf8_bytes(x)),
        V::Union(_, x) => non_utf8_bytes(x),
        _ => false,
    }
}

pub fn case_pair(c: &mut Choices, log: &mut CaseLog) -> CaseResult {
    let cfg = SgenCfg { ..wcfg() };
    let Some(p) = gen_pair(c, log, &cfg, true)? else {
        return Ok(());
    };
    run_pair(&p, c, log)
}

fn run_pair(p: &Pair, c: &mut Choices, log: &mut CaseLog) -> CaseResult {
    let md = min_depths(&p.w.env);
    let vcfg = vgen::VgenCfg { big_collections: false, long_strings: false, max_items: 3, ..vgen::VgenCfg::normal() };
    let values: Vec<V> = (0..5).map(|_| vgen::gen_value_cfg(c, &p.w.node, &p.w.env, &md, &vcfg)).collect();
    let tag = step_tag(&p.steps);
    let detail = pair_detail(p, &values[0]);
    log.label("pair");
    log.hash = fnv(format!("{}|{}", p.w.text, p.r.text).as_bytes());
    structural_checks(&p.w, &p.r, &tag, &detail)?;
    let verdict = can_read(&p.w.schema, &p.r.schema)?;
    log.label(&format!("verdict:{}", match &verdict {
        Ok(Compatibility::Full) => "Full",
        Ok(Compatibility::Partial) => "Partial",
        Err(_) => "Err",
    }));
    // safe steps are never reported incompatible
    if p.steps.iter().all(|s| s.safe) {
        log.label("all_safe_steps");
        if let Err(e) = &verdict {
            return Err(Fail::new(format!("C09/safe-step-rejected/{tag}"), format!("only always-safe steps were applied but can_read = Err({e})")).with(detail));
        }
    }
    let n = soundness(&p.w, &p.r, &values, &tag, &detail)?;
    log.sub_evals += n as u64;
    log.nontrivial = (n >= 3 && p.w.text != p.r.text) || (p.steps.len() >= 2 && p.steps.iter().all(|s| s.safe));
    log.sample = Some(Js::obj(vec![("writer_schema", Js::Str(p.w.text.clone())), ("reader_schema", Js::Str(p.r.text.clone())), ("steps", Js::Str(tag)), ("verdict", Js::Str(verdict_str(&verdict)))]));
    Ok(())
}

/// Bounded-exhaustive alphabet of small schemas.
pub const ALPHABET: &[&str] = &[
    r#""null""#, r#""boolean""#, r#""int""#, r#""long""#, r#""float""#, r#""double""#, r#""bytes""#, r#""string""#,
    r#"{"type":"int","logicalType":"date"}"#,
    r#"{"type":"int","logicalType":"time-millis"}"#,
    r#"{"type":"long","logicalType":"time-micros"}"#,
    r#"{"type":"long","logicalType":"timestamp-millis"}"#,
    r#"{"type":"long","logicalType":"local-timestamp-micros"}"#,
    r#"{"type":"bytes","logicalType":"decimal","precision":4,"scale":1}"#,
    r#"{"type":"fixed","name":"D","size":2,"logicalType":"decimal","precision":4,"scale":1}"#,
    r#"{"type":"bytes","logicalType":"big-decimal"}"#,
    r#"{"type":"string","logicalType":"uuid"}"#,
    r#"{"type":"fixed","name":"U","size":16,"logicalType":"uuid"}"#,
    r#"{"type":"fixed","name":"Du","size":12,"logicalType":"duration"}"#,
    r#"{"type":"array","items":"int"}"#,
    r#"{"type":"array","items":"long"}"#,
    r#"{"type":"array","items":"string"}"#,
    r#"{"type":"map","values":"int"}"#,
    r#"{"type":"map","values":"double"}"#,
    r#"{"type":"record","name":"R","fields":[{"name":"a","type":"int"},{"name":"b","type":"string"}]}"#,
    r#"{"type":"record","name":"R","fields":[{"name":"b","type":"bytes"},{"name":"a","type":"long"},{"name":"c","type":["null","int"],"default":null}]}"#,
    r#"{"type":"enum","name":"E","symbols":["A","B","C"]}"#,
    r#"{"type":"enum","name":"E","symbols":["B","A"],"default":"B"}"#,
    r#"{"type":"fixed","name":"F","size":2}"#,
    r#"{"type":"fixed","name":"F","size":12}"#,
    r#"{"type":"fixed","name":"F","size":16}"#,
    r#"["null","int"]"#,
    r#"["int","string","null"]"#,
    r#"["long","double"]"#,
    r#"{"type":"record","name":"L","fields":[{"name":"v","type":"int"},{"name":"next","type":["null","L"]}]}"#,
];

/// choices = [i, j]
pub fn case_alphabet(c: &mut Choices, log: &mut CaseLog) -> CaseResult {
    let i = c.raw() as usize % ALPHABET.len();
    let j = c.raw() as usize % ALPHABET.len();
    let w = subject_from_text(ALPHABET[i]).map_err(|e| Fail::new("HARNESS/alphabet", e))?;
    let r = subject_from_text(ALPHABET[j]).map_err(|e| Fail::new("HARNESS/alphabet", e))?;
    let tag = format!("{}->{}", w.node.lkind(), r.node.lkind());
    let md = min_depths(&w.env);
    // deterministic value choices derived from the pair index
    let seed: Vec<u64> = (0..400u64).map(|k| crate::choices::derive_seed(i as u64 * 1000 + j as u64, "alphabet", k)).collect();
    let mut vc = Choices::new(&seed);
    let vcfg = vgen::VgenCfg { big_collections: false, long_strings: false, max_items: 3, ..vgen::VgenCfg::normal() };
    let values: Vec<V> = (0..8).map(|_| vgen::gen_value_cfg(&mut vc, &w.node, &w.env, &md, &vcfg)).collect();
    let detail = Js::obj(vec![("writer_schema", Js::str(ALPHABET[i])), ("reader_schema", Js::str(ALPHABET[j]))]);
    log.label("pair");
    log.hash = fnv(format!("A|{i}|{j}").as_bytes());
    structural_checks(&w, &r, &tag, &detail)?;
    let n = soundness(&w, &r, &values, &tag, &detail)?;
    log.sub_evals += n as u64;
    log.nontrivial = n >= 3 && i != j;
    if log.nontrivial {
        log.label("full_and_read");
    }
    Ok(())
}

pub fn dispatch(campaign: &str, c: &mut Choices, log: &mut CaseLog) -> Option<CaseResult> {
    match campaign {
        "pairs" => Some(case_pair(c, log)),
        "alphabet" => Some(case_alphabet(c, log)),
        _ => None,
    }
}

pub fn run(mut chk: Check) -> ! {
    if let Err(e) = refbin::self_test() {
        infra(&format!("refbin self-test failed: {e}"));
    }
    chk.rule = "alphabet: ALL ordered pairs of a 35-schema alphabet (every primitive, logical types on each base, arrays/maps of int/long/string/double, two records, two enums with/without default, fixed 2/12/16, three unions, a recursive list) x 8 edge-biased values of the writer; pairs: (W,R) from C08's evolution generator x 5 values. \
        Oracle: can_read = Full => every value written with W reads Ok with R; R derived from W only by always-safe steps (numeric promotion, reader field with default, field removed/reordered, reader union branch or enum symbol added, wrapping in a union) => verdict not Err; can_read(S,S) and mutual_read(S,S) are Full; mutual_read is symmetric; repeated queries and queries on clones give the same verdict. \
        Non-trivial: W != R with verdict Full and >= 3 values read, or >= 2 safe steps. Distinct by hash of the pair."
        .into();
    chk.assumptions = vec!["soundness is sampled: 5-8 edge-biased values per pair (every scalar edge table entry has non-zero probability; non-UTF-8 bytes included)".into()];
    chk.replay_files(dispatch);
    if chk.replay_only.is_none() {
        let n = ALPHABET.len() as u64;
        let mut inputs = vec![];
        for i in 0..n {
            for j in 0..n {
                inputs.push(vec![i, j]);
            }
        }
        chk.explicit("alphabet", &inputs, case_alphabet);
    }
    let n = chk.scale(300_000, 2_000_000);
    chk.campaign(CampaignCfg::new("pairs", n), case_pair);
    chk.finish()
}
