//! C11 — the parser is total and accepts exactly well-formed schemas.

use crate::choices::{fnv, Choices};
use crate::json::{self, Js};
use crate::refcheck::{dump, first_diff, well_formed};
use crate::runner::*;
use crate::sgen::{gen_schema, SgenCfg};
use crate::spec::*;
use apache_avro::rabin::Rabin;
use apache_avro::schema::ResolvedSchema;
use apache_avro::Schema;
use md5::Md5;
use sha2::Sha256;

fn det(text: &str, extra: Vec<(&str, Js)>) -> Js {
    let mut items = vec![("schema_text", Js::str(text))];
    items.extend(extra);
    Js::obj(items)
}

/// Oracles (A) totality + agreement of the three entry points, (B) operations on an
/// accepted schema never panic, (C) accepted => well formed. Returns whether it was accepted.
pub fn check_text(text: &str, log: &mut CaseLog) -> Result<bool, Fail> {
    let r = guard(|| Schema::parse_str(text)).map_err(|p| Fail::new(format!("C11/parse-panic/{}", p.key_loc()), format!("parse_str panicked at {}: {}", p.short_loc(), p.msg)).with(det(text, vec![])))?;
    // parse_reader and parse(&Value) agree with parse_str
    let r2 = guard(|| Schema::parse_reader(&mut text.as_bytes())).map_err(|p| Fail::new(format!("C11/parse-panic/{}", p.key_loc()), format!("parse_reader panicked: {}", p.msg)).with(det(text, vec![])))?;
    if r.is_ok() != r2.is_ok() {
        return Err(Fail::new("C11/entry-points-disagree", format!("parse_str: {}, parse_reader: {}", r.is_ok(), r2.is_ok())).with(det(text, vec![])));
    }
    if let Ok(v) = serde_json::from_str::<serde_json::Value>(text) {
        let r3 = guard(|| Schema::parse(&v)).map_err(|p| Fail::new(format!("C11/parse-panic/{}", p.key_loc()), format!("parse panicked: {}", p.msg)).with(det(text, vec![])))?;
        if r.is_ok() != r3.is_ok() {
            return Err(Fail::new("C11/entry-points-disagree", format!("parse_str: {}, parse(&Value): {}", r.is_ok(), r3.is_ok())).with(det(text, vec![])));
        }
    }
    let s = match r {
        Ok(s) => s,
        Err(_) => return Ok(false),
    };
    if let Ok(s2) = &r2 {
        if let Some(d) = first_diff(&dump(&s), &dump(s2), "") {
            return Err(Fail::new("C11/entry-points-disagree", format!("parse_str and parse_reader give different schemas at {d}")).with(det(text, vec![])));
        }
    }
    log.sub_evals += 1;
    // (B) every operation completes
    let ops: Vec<(&str, Box<dyn Fn() + '_>)> = vec![
        ("canonical_form", Box::new(|| drop(s.canonical_form()))),
        ("fingerprint<Rabin>", Box::new(|| drop(s.fingerprint::<Rabin>()))),
        ("fingerprint<Md5>", Box::new(|| drop(s.fingerprint::<Md5>()))),
        ("fingerprint<Sha256>", Box::new(|| drop(s.fingerprint::<Sha256>()))),
        ("serde_json::to_string", Box::new(|| drop(serde_json::to_string(&s)))),
        ("ResolvedSchema::new", Box::new(|| drop(ResolvedSchema::new(&s)))),
        ("Debug", Box::new(|| drop(format!("{s:?}")))),
        ("independent_canonical_form", Box::new(|| drop(s.independent_canonical_form(&[])))),
        ("custom_attributes", Box::new(|| drop(s.custom_attributes().cloned()))),
        ("name/namespace/aliases/doc", Box::new(|| drop((s.name().cloned(), s.namespace().map(|x| x.to_string()), s.aliases().cloned(), s.doc().cloned())))),
        ("clone+eq", Box::new(|| { let _ = s.clone() == s; })),
    ];
    for (name, op) in &ops {
        if let Err(p) = guard(|| op()) {
            return Err(Fail::new(format!("C11/operation-panic/{name}/{}", p.key_loc()), format!("{name} panicked at {}: {}", p.short_loc(), p.msg)).with(det(text, vec![])));
        }
    }
    drop(ops);
    // (C) accepted => well formed
    let problems = well_formed(&s);
    if let Some(p) = problems.first() {
        return Err(Fail::new(format!("C11/accepted-ill-formed/{}", p.class), format!("accepted although {} ({} problem(s))", p.msg, problems.len())).with(det(text, vec![])));
    }
    if let Err(e) = ResolvedSchema::new(&s) {
        return Err(Fail::new("C11/resolve-fails", format!("accepted and well formed by the walker, but reference resolution fails: {e}")).with(det(text, vec![])));
    }
    Ok(true)
}

// ---------------------------------------------------------------- mutation

fn paths(js: &Js, cur: &mut Vec<usize>, out: &mut Vec<Vec<usize>>) {
    out.push(cur.clone());
    match js {
        Js::Arr(a) => {
            for (i, x) in a.iter().enumerate() {
                cur.push(i);
                paths(x, cur, out);
                cur.pop();
            }
        }
        Js::Obj(o) => {
            for (i, (_, x)) in o.iter().enumerate() {
                cur.push(i);
                paths(x, cur, out);
                cur.pop();
            }
        }
        _ => {}
    }
}

fn at_mut<'a>(js: &'a mut Js, path: &[usize]) -> &'a mut Js {
    let mut cur = js;
    for i in path {
        cur = match cur {
            Js::Arr(a) => &mut a[*i],
            Js::Obj(o) => &mut o[*i].1,
            _ => unreachable!(),
        };
    }
    cur
}

const REPLACEMENTS: &[&str] = &[
    "null", "true", "0", "-1", "1.5", "2147483648", "9223372036854775807", "9223372036854775808", "18446744073709551615", "1e400", "-0", "\"\"", "\"record\"", "\"enum\"", "\"fixed\"", "\"int\"", "\"array\"",
    "\"map\"", "\"union\"", "\"bad name\"", "\"9x\"", "\"a..b\"", "\".\"", "\"a.\"", "\"\u{e9}\"", "[]", "[[]]", "{}", "{\"type\":\"int\"}", "[\"int\",\"int\"]", "[\"null\",[\"int\"]]", "{\"type\":\"fixed\",\"name\":\"DUP\",\"size\":1}",
    "{\"type\":\"enum\",\"name\":\"DUP\",\"symbols\":[\"A\",\"A\"]}", "{\"type\":\"record\",\"name\":\"DUP\",\"fields\":[{\"name\":\"a\",\"type\":\"int\"},{\"name\":\"a\",\"type\":\"int\"}]}", "\"DUP\"",
];
const KEYS: &[&str] = &["type", "name", "namespace", "fields", "symbols", "items", "values", "size", "default", "aliases", "doc", "logicalType", "precision", "scale", "order", "junk"];

/// One structural mutation; returns a description.
pub fn mutate(js: &mut Js, c: &mut Choices) -> String {
    let mut ps = vec![];
    paths(js, &mut vec![], &mut ps);
    let path = ps[c.pick(ps.len())].clone();
    let op = c.pick(7);
    let desc_path = format!("{path:?}");
    let node = at_mut(js, &path);
    match (op, node) {
        (0, Js::Obj(o)) if !o.is_empty() => {
            let i = c.pick(o.len());
            let (k, _) = o.remove(i);
            format!("drop key {k} at {desc_path}")
        }
        (1, Js::Obj(o)) if !o.is_empty() => {
            let i = c.pick(o.len());
            let mut e = o[i].clone();
            if c.bool() {
                e.1 = json::parse_strict(REPLACEMENTS[c.pick(REPLACEMENTS.len())]).unwrap();
            }
            let k = e.0.clone();
            o.push(e);
            format!("duplicate key {k} at {desc_path}")
        }
        (2, Js::Obj(o)) if !o.is_empty() => {
            let i = c.pick(o.len());
            let nk = KEYS[c.pick(KEYS.len())];
            let old = std::mem::replace(&mut o[i].0, nk.to_string());
            format!("rename key {old} -> {nk} at {desc_path}")
        }
        (3, Js::Arr(a)) if !a.is_empty() => {
            let i = c.pick(a.len());
            let e = a[i].clone();
            a.push(e);
            format!("duplicate element {i} at {desc_path}")
        }
        (4, Js::Arr(a)) if !a.is_empty() => {
            let i = c.pick(a.len());
            a.remove(i);
            format!("remove element {i} at {desc_path}")
        }
        (5, Js::Obj(o)) => {
            let nk = KEYS[c.pick(KEYS.len())];
            let v = json::parse_strict(REPLACEMENTS[c.pick(REPLACEMENTS.len())]).unwrap();
            o.push((nk.to_string(), v));
            format!("add key {nk} at {desc_path}")
        }
        (_, node) => {
            let r = REPLACEMENTS[c.pick(REPLACEMENTS.len())];
            *node = json::parse_strict(r).unwrap();
            format!("replace value at {desc_path} with {r}")
        }
    }
}

pub fn case_mutated(c: &mut Choices, log: &mut CaseLog) -> CaseResult {
    let cfg = SgenCfg { node_budget: 14, max_depth: 3, ..SgenCfg::decorated() };
    let node = gen_schema(c, &cfg);
    let mut js = render(&node, "");
    let k = 1 + c.weighted(&[6, 3, 1]);
    let mut descs = vec![];
    for _ in 0..k {
        descs.push(mutate(&mut js, c));
    }
    let text = js.render();
    log.label("case");
    log.hash = fnv(text.as_bytes());
    let accepted = check_text(&text, log)?;
    let nested = descs.iter().any(|d| d.matches(',').count() >= 1);
    log.nontrivial = accepted || nested;
    if accepted {
        log.label("mutant_accepted");
        log.sample = Some(Js::obj(vec![("mutations", Js::Arr(descs.iter().map(|d| Js::str(d)).collect())), ("text", Js::Str(text)), ("outcome", Js::str("accepted and well formed"))]));
    } else {
        log.label("mutant_rejected");
        if nested {
            log.sample = Some(Js::obj(vec![("mutations", Js::Arr(descs.iter().map(|d| Js::str(d)).collect())), ("text", Js::Str(text)), ("outcome", Js::str("rejected"))]));
        }
    }
    Ok(())
}

fn gen_json(c: &mut Choices, depth: usize) -> Js {
    let w: &[u32] = if depth > 4 { &[3, 3, 0, 0] } else { &[3, 3, 2, 3] };
    match c.weighted(w) {
        0 => json::parse_strict(REPLACEMENTS[c.pick(REPLACEMENTS.len())]).unwrap(),
        1 => Js::Str(["int", "string", "null", "record", "x.Y", "R", "date", "decimal", "ascending", ""][c.pick(10)].to_string()),
        2 => Js::Arr((0..c.pick(4)).map(|_| gen_json(c, depth + 1)).collect()),
        _ => Js::Obj((0..c.pick(6)).map(|_| (KEYS[c.pick(KEYS.len())].to_string(), gen_json(c, depth + 1))).collect()),
    }
}

pub fn case_json(c: &mut Choices, log: &mut CaseLog) -> CaseResult {
    let js = gen_json(c, 0);
    let text = js.render();
    log.label("case");
    log.hash = fnv(text.as_bytes());
    let accepted = check_text(&text, log)?;
    log.nontrivial = accepted;
    if accepted {
        log.label("json_accepted");
        log.sample = Some(Js::obj(vec![("text", Js::Str(text))]));
    }
    Ok(())
}

pub fn case_text(c: &mut Choices, log: &mut CaseLog) -> CaseResult {
    // arbitrary strings: raw bytes (lossy), JSON-ish token soup, truncated schema texts
    let text = match c.pick(3) {
        0 => {
            let n = c.pick(40);
            String::from_utf8_lossy(&c.bytes(n)).to_string()
        }
        1 => {
            let toks = ["{", "}", "[", "]", ":", ",", "\"type\"", "\"record\"", "\"name\"", "\"fields\"", "\"int\"", "1", "null", "\"", "\\", "\\u00", " ", "\"x\"", "1e999", "-"];
            (0..c.pick(30)).map(|_| toks[c.pick(toks.len())]).collect()
        }
        _ => {
            let node = gen_schema(c, &SgenCfg { node_budget: 8, ..SgenCfg::decorated() });
            let t = render_text(&node);
            let cut = c.pick(t.len() + 1);
            let mut end = cut;
            while !t.is_char_boundary(end) {
                end -= 1;
            }
            t[..end].to_string()
        }
    };
    log.label("case");
    log.hash = fnv(text.as_bytes());
    let accepted = check_text(&text, log)?;
    log.nontrivial = accepted;
    Ok(())
}

/// Root-cause class of a rejection of a generated (well-formed) schema: for default errors the
/// kind of the innermost type the default cannot be resolved against.
fn reject_class(err: &str, root: &SNode) -> String {
    // "`default`'s value type of field `F` in `REC` must be ..."
    let grab = |after: &str| -> Option<String> {
        let i = err.find(after)? + after.len();
        let rest = &err[i..];
        Some(rest[..rest.find('`')?].to_string())
    };
    if err.contains("`default`") {
        if let (Some(field), Some(rec)) = (grab("of field `"), grab("` in `")) {
            let env = env_of(root);
            if let Some(def) = env.get(&rec) {
                if let SType::Record(_, fields) = &def.ty {
                    if let Some(f) = fields.iter().find(|f| f.name == field) {
                        let mut kinds = std::collections::BTreeSet::new();
                        fn collect(n: &SNode, env: &Env, kinds: &mut std::collections::BTreeSet<String>, depth: usize) {
                            if depth > 6 {
                                return;
                            }
                            let n = deref(n, env);
                            if n.logical.is_some() {
                                kinds.insert(n.lkind());
                            }
                            match &n.ty {
                                SType::Array(i) | SType::Map(i) => collect(i, env, kinds, depth + 1),
                                SType::Union(bs) => {
                                    if let Some(b) = bs.first() {
                                        collect(b, env, kinds, depth + 1)
                                    }
                                }
                                SType::Record(_, fs) => fs.iter().for_each(|f| collect(&f.node, env, kinds, depth + 1)),
                                _ => {}
                            }
                        }
                        collect(&f.node, &env, &mut kinds, 0);
                        let k: Vec<String> = kinds.into_iter().collect();
                        return format!("default/{}", if k.is_empty() { deref(&f.node, &env).lkind() } else { k.join("+") });
                    }
                }
            }
        }
        return "default/?".into();
    }
    err.split(|c: char| !c.is_alphanumeric() && c != ' ').next().unwrap_or("?").trim().replace(' ', "-")
}

/// (D) completeness: every generated well-formed schema is accepted.
pub fn case_wellformed(c: &mut Choices, log: &mut CaseLog) -> CaseResult {
    let cfg = SgenCfg { max_depth: 5, node_budget: 60, same_simple_names: true, ..SgenCfg::decorated() };
    let node = gen_schema(c, &cfg);
    let text = render_text(&node);
    log.label("case");
    log.hash = fnv(text.as_bytes());
    let accepted = check_text(&text, log)?;
    if !accepted {
        let e = Schema::parse_str(&text).err().map(|e| format!("{e}")).unwrap_or_default();
        let class = reject_class(&e, &node);
        return Err(Fail::new(format!("C11/well-formed-rejected/{class}"), format!("a schema that is well formed by the specification is rejected: {e}")).with(det(&text, vec![])));
    }
    fn depth(n: &SNode) -> usize {
        match &n.ty {
            SType::Array(i) | SType::Map(i) => 1 + depth(i),
            SType::Union(bs) => 1 + bs.iter().map(depth).max().unwrap_or(0),
            SType::Record(_, fs) => 1 + fs.iter().map(|f| depth(&f.node)).max().unwrap_or(0),
            _ => 0,
        }
    }
    log.nontrivial = depth(&node) >= 3;
    if log.nontrivial {
        log.label("deep");
        log.sample = Some(Js::obj(vec![("text", Js::Str(text)), ("outcome", Js::str("accepted"))]));
    }
    Ok(())
}

/// Fixed probes for the classes found while reading: choices = [index]
const PROBES: &[&str] = &[
    r#"{"type":"fixed","name":"F","size":9223372036854775808}"#,
    r#"{"type":"fixed","name":"F","size":18446744073709551615}"#,
    r#"{"type":"record","name":"R","fields":[{"name":"a","type":{"type":"fixed","name":"N","size":1}},{"name":"b","type":{"type":"fixed","name":"N","size":2}}]}"#,
    r#"{"type":"record","name":"R","fields":[{"name":"a","type":{"type":"fixed","name":"N","size":1,"aliases":["M"]}},{"name":"b","type":"M"}]}"#,
    r#"{"type":"record","name":"R","fields":[{"name":"a","type":{"type":"fixed","name":"N","size":2},"default":"abc"}]}"#,
    r#"{"type":"record","name":"R","fields":[{"name":"a","type":["null","int"],"default":5}]}"#,
    r#"{"type":"record","name":"R","fields":[{"name":"a","type":"int","default":"x"}]}"#,
    r#"{"type":"enum","name":"E","symbols":["A","A"]}"#,
    r#"{"type":"enum","name":"E","symbols":["A"],"default":"B"}"#,
    r#"["int",{"type":"int","logicalType":"date"}]"#,
    r#"{"type":"record","name":"R","fields":[{"name":"a","type":"R"}]}"#,
    r#"{"type":"record","name":"a-b","fields":[]}"#,
    r#"{"type":"fixed","name":"F","size":-1}"#,
    r#"{"type":"fixed","name":"F","size":1.5}"#,
    r#"{"type":"bytes","logicalType":"decimal","precision":18446744073709551615,"scale":0}"#,
    r#"{"type":"fixed","name":"F","size":"4"}"#,
    r#"{"type":"record","name":"R","fields":[{"name":"a","type":{"type":"fixed","name":"F","size":2},"default":"\u00ff\u00e0"}]}"#,
    r#"{"type":"record","name":"R","fields":[{"name":"a","type":"int","order":true,"items":5,"precision":"abc","scale":1.5}],"size":null}"#,
    r#"{"type":"record","name":"R","fields":[{"name":"a","type":{"type":"fixed","name":"F","size":12,"logicalType":"duration"},"default":"abcdefghijkl"}]}"#,
    r#"{"type":"record","name":"R","fields":[{"name":"a","type":{"type":"bytes","logicalType":"uuid"},"default":"0123456789abcdef"}]}"#,
    r#"{"type":"record","name":"R","fields":[{"name":"a","type":{"type":"bytes","logicalType":"big-decimal"},"default":"\u0002\u0001\u0000"}]}"#,
    r#"{"type":"record","name":"R","fields":[{"name":"a","type":{"type":"record","name":"I","fields":[{"name":"x","type":[{"type":"enum","name":"e","symbols":["zz","A"]},{"type":"string","logicalType":"uuid"}]}]},"default":{"x":"A"}}]}"#,
];
/// probes that are well formed by the specification and must be accepted: (index, class)
const MUST_ACCEPT: &[(usize, &str)] = &[(16, "fixed-default-latin1"), (18, "default/duration(fixed)"), (19, "default/uuid(bytes)"), (20, "default/big-decimal(bytes)"), (21, "default/nested-union-enum-vs-uuid-string")];

pub fn case_probe(c: &mut Choices, log: &mut CaseLog) -> CaseResult {
    let i = c.raw() as usize % PROBES.len();
    log.label("probe");
    log.nontrivial = true;
    log.hash = fnv(PROBES[i].as_bytes());
    let accepted = check_text(PROBES[i], log)?;
    if let Some((_, class)) = MUST_ACCEPT.iter().find(|(j, _)| *j == i) {
        if !accepted {
            return Err(Fail::new(format!("C11/well-formed-rejected/{class}"), "a default given in the specification's JSON encoding of the underlying type is rejected").with(det(PROBES[i], vec![])));
        }
    }
    Ok(())
}

pub fn dispatch(campaign: &str, c: &mut Choices, log: &mut CaseLog) -> Option<CaseResult> {
    match campaign {
        "mutated" => Some(case_mutated(c, log)),
        "json" => Some(case_json(c, log)),
        "text" => Some(case_text(c, log)),
        "wellformed" => Some(case_wellformed(c, log)),
        "probe" => Some(case_probe(c, log)),
        "fuzz_schema" => Some(crate::fuzzglue::case_schema_text(c, log)),
        _ => None,
    }
}

pub fn run(mut chk: Check) -> ! {
    chk.rule = "mutated: generated decorated schema JSON with 1-3 structural mutations at random positions (drop/duplicate/rename/add key, duplicate/remove element, value replaced by 35 hostile alternatives incl. extreme numbers, bad names, nested/duplicate unions, duplicate definitions); json: arbitrary JSON from schema keywords; text: arbitrary strings, token soup, truncated schema texts; wellformed: every generated well-formed schema (depth<=5). \
        Oracle: parse_str/parse_reader/parse return (no panic) and agree; on Ok every operation (canonical form, 3 fingerprints, serialization, ResolvedSchema::new, Debug, independent_canonical_form, accessors) completes; the harness's walker finds the accepted schema well formed (names, unique full names, resolvable references, union rules, enum default, unique fields, defaults conform per the spec's JSON-default table, union default = some branch); generated well-formed schemas are accepted. \
        Non-trivial: a mutant that is still accepted, a rejected mutant whose mutation is nested, a generated schema of depth >= 3. Distinct by hash of the text."
        .into();
    chk.assumptions = vec!["well-formedness as implemented by refcheck::well_formed (spec rules); a field default for a union may match any branch (current specification)".into()];
    chk.replay_files(dispatch);
    if chk.replay_only.is_none() {
        let inputs: Vec<Vec<u64>> = (0..PROBES.len() as u64).map(|i| vec![i]).collect();
        chk.explicit("probe", &inputs, case_probe);
    }
    let n = chk.scale(500_000, 3_000_000);
    chk.campaign(CampaignCfg::new("mutated", n), case_mutated);
    chk.campaign(CampaignCfg::new("json", n / 3).len(0, 300), case_json);
    chk.campaign(CampaignCfg::new("text", n / 3).len(0, 300), case_text);
    chk.campaign(CampaignCfg::new("wellformed", n / 3), case_wellformed);
    chk.require_label("mutated:mutant_accepted", "mutated:case", 5.0);
    chk.fuzz_stage("c11_schema", "fuzz_schema", 100_000, 1024, &crate::fuzzglue::seeds_schema(), crate::fuzzglue::case_schema_text);
    chk.finish()
}
