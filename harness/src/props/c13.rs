//! C13 — short writes and sink errors: fault enumeration inside generated scenarios.

use super::c03::schema_cfg;
use super::common::*;
use crate::choices::{fnv, Choices};
use crate::dynserde::{DynSer, SerPlan};
use crate::json::Js;
use crate::refocf;
use crate::runner::*;
use crate::sgen::SgenCfg;
use crate::sinks::*;
use crate::spec::*;
use crate::tolib::to_lib;
use crate::vgen;
use apache_avro::schema::ResolvedSchema;
use apache_avro::types::Value;
use apache_avro::writer::datum::GenericDatumWriter;
use apache_avro::{Codec, GenericSingleObjectWriter, Writer};

#[derive(Clone, Debug)]
pub enum COp {
    Append(usize),
    AppendSer(usize),
    Flush,
    Extend(Vec<usize>),
}

#[derive(Clone, Debug)]
pub enum Scenario {
    Datum { validate: bool },
    Ser { tbs: Option<usize> },
    AvroDatumRef,
    Container { codec: Codec, block_size: usize, ops: Vec<COp>, drop_finish: bool },
    SingleObject { n: usize },
}

impl Scenario {
    fn name(&self) -> &'static str {
        match self {
            Scenario::Datum { .. } => "datum_writer",
            Scenario::Ser { .. } => "write_ser",
            Scenario::AvroDatumRef => "write_avro_datum_ref",
            Scenario::Container { .. } => "container",
            Scenario::SingleObject { .. } => "single_object",
        }
    }
}

pub struct RunOut {
    /// per library call: (count is documented as "bytes written", result)
    pub calls: Vec<(bool, Result<usize, String>)>,
    /// sink write-call count when the explicit calls were over (drop phase starts here)
    pub writes_before_drop: usize,
    pub drop_panicked: Option<String>,
}

impl RunOut {
    fn any_err(&self) -> bool {
        self.calls.iter().any(|(_, r)| r.is_err())
    }
}

struct World<'a> {
    /// how the dynamic serializer presents values (field order, map-style records, length hints)
    plan: SerPlan,
    sub: &'a Subject,
    values: &'a [V],
    libvals: Vec<Value>,
}

fn run_scenario(sc: &Scenario, w: &World, sink: &mut FaultSink) -> RunOut {
    let mut out = RunOut { calls: vec![], writes_before_drop: 0, drop_panicked: None };
    let sub = w.sub;
    macro_rules! push {
        ($doc:expr, $r:expr) => {{
            let r = $r.map_err(|e| format!("{e}"));
            let failed = r.is_err();
            out.calls.push(($doc, r));
            failed
        }};
    }
    match sc {
        Scenario::Datum { validate } => {
            let wr = GenericDatumWriter::builder(&sub.schema).validate(*validate).build().expect("writer");
            for lv in &w.libvals {
                if push!(false, wr.write_value_ref(sink, lv)) {
                    break;
                }
            }
        }
        Scenario::Ser { tbs } => {
            let wr = GenericDatumWriter::builder(&sub.schema).maybe_target_block_size(*tbs).build().expect("writer");
            for v in w.values {
                if push!(true, wr.write_ser(sink, &DynSer::new(&sub.node, v, &sub.env, w.plan))) {
                    break;
                }
            }
        }
        Scenario::AvroDatumRef => {
            let rs = ResolvedSchema::new(&sub.schema).expect("resolved");
            for v in w.values {
                #[allow(deprecated)]
                let r = apache_avro::write_avro_datum_ref(&sub.schema, rs.get_names(), &DynSer::new(&sub.node, v, &sub.env, w.plan), sink);
                if push!(true, r) {
                    break;
                }
            }
        }
        Scenario::SingleObject { n } => {
            let mut wr = GenericSingleObjectWriter::new_with_capacity(&sub.schema, 64).expect("so writer");
            for lv in w.libvals.iter().take(*n) {
                if push!(true, wr.write_value_ref(lv, sink)) {
                    break;
                }
            }
        }
        Scenario::Container { codec, block_size, ops, drop_finish } => {
            let marker = [7u8; 16];
            let mut writer = Writer::builder().schema(&sub.schema).writer(&mut *sink).codec(*codec).block_size(*block_size).marker(marker).build().expect("writer");
            let mut failed = false;
            for op in ops {
                let f = match op {
                    COp::Append(i) => push!(true, writer.append_value_ref(&w.libvals[*i])),
                    COp::AppendSer(i) => push!(true, writer.append_ser(DynSer::new(&sub.node, &w.values[*i], &sub.env, w.plan))),
                    COp::Flush => push!(true, writer.flush()),
                    COp::Extend(is) => push!(true, writer.extend_from_slice(&is.iter().map(|i| w.libvals[*i].clone()).collect::<Vec<_>>())),
                };
                if f {
                    failed = true;
                    break;
                }
            }
            out.writes_before_drop = writer.get_ref().write_calls;
            if failed || *drop_finish {
                // after an error (or by choice) the writer is dropped: must not panic
                if let Err(p) = guard(move || drop(writer)) {
                    out.drop_panicked = Some(format!("{} at {}", p.msg, p.short_loc()));
                }
            } else {
                match writer.into_inner() {
                    Ok(_) => out.calls.push((false, Ok(0))),
                    Err(e) => out.calls.push((false, Err(format!("{e}")))),
                }
                out.writes_before_drop = usize::MAX;
            }
            return out;
        }
    }
    out.writes_before_drop = usize::MAX;
    out
}

fn same_container(a: &[u8], b: &[u8]) -> Result<(), String> {
    if a.len() != b.len() {
        return Err(format!("length {} vs baseline {}", a.len(), b.len()));
    }
    let fa = refocf::read(a).map_err(|e| format!("delivered file unreadable: {e}"))?;
    let fb = refocf::read(b).map_err(|e| format!("HARNESS: baseline unreadable: {e}"))?;
    let mut ma = fa.meta.clone();
    let mut mb = fb.meta.clone();
    ma.sort();
    mb.sort();
    if ma != mb || fa.marker != fb.marker {
        return Err("header differs".into());
    }
    if fa.blocks.len() != fb.blocks.len() || fa.blocks.iter().zip(&fb.blocks).any(|(x, y)| x.count != y.count || x.payload != y.payload) {
        return Err("blocks differ".into());
    }
    Ok(())
}

fn gen_plan(c: &mut Choices) -> Plan {
    match c.pick(4) {
        0 => Plan::AtMost(1),
        1 => Plan::AtMost(1 + c.pick(7)),
        2 => {
            let k = 2 + c.pick(5);
            Plan::Cycle((0..k).map(|_| 1 + c.pick(9)).collect())
        }
        _ => Plan::All,
    }
}

pub fn case_scenario(c: &mut Choices, log: &mut CaseLog) -> CaseResult {
    let container = c.chance(2, 5);
    let cfg = if container { schema_cfg() } else { SgenCfg { node_budget: 20, max_depth: 3, ..SgenCfg::full() } };
    let Some(sub) = gen_subject(c, &cfg, log)? else {
        return Ok(());
    };
    let md = min_depths(&sub.env);
    let vcfg = vgen::VgenCfg { big_collections: false, long_strings: false, ..vgen::VgenCfg::small() };
    let nvals = 1 + c.pick(4);
    let values: Vec<V> = (0..nvals).map(|_| vgen::gen_value_cfg(c, &sub.node, &sub.env, &md, &vcfg)).collect();
    let libvals: Vec<Value> = values.iter().map(|v| to_lib(&sub.node, v, &sub.env)).collect();
    // the call plan is a function of the generated case (no extra choices are consumed, so
    // existing replay files keep their meaning); one case in three uses the plain plan
    let ph = crate::choices::fnv(format!("{}|{}", sub.text, values.iter().map(|v| v.to_js().render()).collect::<Vec<_>>().join(",")).as_bytes());
    let plan = SerPlan { seed: if ph % 3 == 0 { 0 } else { ph | 1 } };
    if plan.seed != 0 {
        log.label("varied_serde_call_plan");
    }
    let world = World { plan, sub: &sub, values: &values, libvals };
    let sc = if container {
        let codec = gen_codec(c, true);
        let nops = 1 + c.pick(6);
        let mut ops = vec![];
        for _ in 0..nops {
            ops.push(match c.pick(5) {
                0 | 1 => COp::Append(c.pick(nvals)),
                2 => COp::AppendSer(c.pick(nvals)),
                3 => COp::Flush,
                _ => COp::Extend((0..c.pick(3)).map(|_| c.pick(nvals)).collect()),
            });
        }
        Scenario::Container { codec, block_size: [0usize, 1, 30, 16000][c.pick(4)], ops, drop_finish: c.chance(1, 3) }
    } else {
        match c.pick(5) {
            0 => Scenario::Datum { validate: true },
            1 => Scenario::Datum { validate: false },
            2 => Scenario::Ser { tbs: [None, Some(0), Some(8), Some(4096)][c.pick(4)] },
            3 => Scenario::AvroDatumRef,
            _ => Scenario::SingleObject { n: nvals },
        }
    };
    log.label("scenario");
    log.label(&format!("scenario:{}", sc.name()));
    let describe = |extra: Vec<(&str, Js)>| {
        let mut items = vec![
            ("scenario", Js::Str(format!("{sc:?}"))),
            ("schema", Js::Str(sub.text.clone())),
            ("values", Js::Arr(values.iter().map(|v| Js::Str(v.to_js().render())).collect())),
        ];
        items.extend(extra);
        Js::obj(items)
    };
    // baseline: what an in-memory buffer receives
    let mut base_sink = FaultSink::new(Plan::All);
    let base = run_scenario(&sc, &world, &mut base_sink);
    if base.any_err() || base.drop_panicked.is_some() {
        return Err(Fail::new("C13/baseline-failed", format!("scenario fails on a perfect sink: {:?}", base.calls)).with(describe(vec![])));
    }
    let baseline = base_sink.data.clone();
    let is_container = matches!(sc, Scenario::Container { .. });
    let sc_hash = fnv(format!("{sc:?}|{}|{:?}", sub.text, values).as_bytes());
    log.sample = Some(describe(vec![("baseline_len", Js::int(baseline.len() as i128)), ("faults", Js::str("3 short-write plans; for each: clean run, then an error injected at every write call index (Other and Interrupted) and every flush call index"))]));

    for plan_i in 0..3 {
        let plan = if plan_i == 0 { Plan::AtMost(1) } else { gen_plan(c) };
        // clean run under the plan
        let mut sink = FaultSink::new(plan.clone());
        let clean = run_scenario(&sc, &world, &mut sink);
        log.sub_evals += 1;
        let n_writes = sink.write_calls;
        let n_flushes = sink.flush_calls;
        if sink.split {
            log.sub_nontrivial.push(sc_hash ^ fnv(format!("{plan:?}").as_bytes()));
            log.label("split_write");
        }
        judge(&sc, &clean, &sink, &baseline, is_container, None).map_err(|(k, m)| Fail::new(format!("C13/{k}/{}", sc.name()), m).with(describe(vec![("plan", Js::Str(format!("{plan:?}"))), ("delivered", bytes_js(&sink.data)), ("baseline", bytes_js(&baseline)), ("returns", Js::Str(format!("{:?}", clean.calls)))])))?;
        // faults
        let mut faults: Vec<(FaultOn, usize, FaultKind)> = vec![];
        for i in 0..n_writes {
            faults.push((FaultOn::Write, i, FaultKind::Other));
            faults.push((FaultOn::Write, i, FaultKind::Interrupted));
        }
        for i in 0..n_flushes {
            faults.push((FaultOn::Flush, i, FaultKind::Other));
        }
        for fault in faults {
            let mut sink = FaultSink::new(plan.clone());
            sink.fault = Some(fault);
            let r = run_scenario(&sc, &world, &mut sink);
            log.sub_evals += 1;
            if fault.1 >= 1 || sink.split {
                log.sub_nontrivial.push(sc_hash ^ fnv(format!("{plan:?}{fault:?}").as_bytes()));
            }
            judge(&sc, &r, &sink, &baseline, is_container, Some(fault)).map_err(|(k, m)| {
                Fail::new(format!("C13/{k}/{}", sc.name()), m).with(describe(vec![
                    ("plan", Js::Str(format!("{plan:?}"))),
                    ("fault", Js::Str(format!("{fault:?}"))),
                    ("delivered", bytes_js(&sink.data)),
                    ("baseline", bytes_js(&baseline)),
                    ("returns", Js::Str(format!("{:?}", r.calls))),
                ]))
            })?;
        }
    }
    Ok(())
}

fn judge(sc: &Scenario, r: &RunOut, sink: &FaultSink, baseline: &[u8], is_container: bool, fault: Option<(FaultOn, usize, FaultKind)>) -> Result<(), (String, String)> {
    if let Some(p) = &r.drop_panicked {
        return Err(("drop-panicked".into(), p.clone()));
    }
    if r.any_err() {
        return Ok(()); // the caller was told
    }
    // a fault that fires only while the writer is being dropped cannot be reported (documented)
    if let Some((FaultOn::Write, at, _)) = fault {
        if at >= r.writes_before_drop {
            return Ok(());
        }
    }
    if let (Some((FaultOn::Flush, _, _)), Scenario::Container { drop_finish: true, .. }) = (fault, sc) {
        return Ok(());
    }
    // every call returned Ok: the sink must hold exactly the baseline
    let same = if is_container { same_container(&sink.data, baseline) } else if sink.data == baseline { Ok(()) } else { Err(format!("{} bytes delivered, baseline {}", sink.data.len(), baseline.len())) };
    if let Err(m) = same {
        if m.starts_with("HARNESS") {
            return Err(("HARNESS".into(), m));
        }
        return Err(("silent-loss".into(), format!("every call returned Ok but the sink did not receive the baseline bytes: {m}")));
    }
    // documented byte counts
    let documented: usize = r.calls.iter().filter(|(d, _)| *d).map(|(_, x)| *x.as_ref().unwrap()).sum();
    let exact = match sc {
        // what the final implicit flush (into_inner / drop) writes is not reported to anyone:
        // the counts are exact only if the history ended with an explicit flush
        Scenario::Container { ops, .. } => matches!(ops.last(), Some(COp::Flush | COp::Extend(_))),
        Scenario::Datum { .. } => false,
        _ => true,
    };
    if exact && documented != sink.data.len() {
        return Err(("byte-count".into(), format!("returned byte counts sum to {documented}, the sink accepted {}", sink.data.len())));
    }
    if !exact && !matches!(sc, Scenario::Datum { .. }) && documented > sink.data.len() {
        return Err(("byte-count".into(), format!("returned byte counts sum to {documented}, more than the sink accepted ({})", sink.data.len())));
    }
    Ok(())
}

pub fn dispatch(campaign: &str, c: &mut Choices, log: &mut CaseLog) -> Option<CaseResult> {
    match campaign {
        "scenario" => Some(case_scenario(c, log)),
        _ => None,
    }
}

pub fn run(mut chk: Check) -> ! {
    chk.rule = "generated write scenarios (datum writer validate on/off, write_ser direct and buffered, write_avro_datum_ref, container session with appends/append_ser/extend/flush and into_inner or drop per codec, single-object writer sequences) x 3 short-write plans (1 byte per call, <=k bytes, cyclic lengths, all) x \
        an error injected at EVERY sink write call index (ErrorKind::Other and Interrupted) and every flush call index. Oracle: some call returned Err, or the sink holds exactly the bytes a Vec<u8> receives (containers: same length, same header/blocks by the independent reader); documented byte counts sum to the bytes accepted; drop after an error does not panic. \
        Non-trivial: the plan split at least one write, or the fault index is >=1. Distinct by (scenario hash, plan, fault)."
        .into();
    chk.assumptions = vec![
        "sinks accept at least one byte per call (Ok(0) for a non-empty buffer would be a sink violating the contract)".into(),
        "errors injected while a Writer is being dropped cannot be reported by design and are excluded from the exactness oracle".into(),
    ];
    chk.replay_files(dispatch);
    let n = chk.scale(4000, 60_000);
    chk.campaign(CampaignCfg::new("scenario", n).len(0, 900), case_scenario);
    chk.require_label("scenario:split_write", "scenario:scenario", 50.0);
    chk.finish()
}
