//! C05 — hostile bytes: no panic, abort, hang or over-allocation. One child process per
//! allocation limit (the limit is a process-wide once-cell).

use super::c06::small_schemas;
use super::common::*;
use crate::alloc::{measure, Usage};
use crate::choices::{fnv, Choices};
use crate::dynserde::{self, AnyTree, DynOutLenient, WORK_EXCEEDED};
use crate::hostile::hostile_datum;
use crate::json::{self, Js};
use crate::refbin::{self, put_long, Layout, LayoutStats};
use crate::refocf;
use crate::runner::*;
use crate::sgen::SgenCfg;
use crate::spec::*;
use crate::specparse::subject_from_text;
use apache_avro::reader::datum::GenericDatumReader;
use apache_avro::{Bzip2Settings, Codec, GenericSingleObjectReader, Reader, XzSettings};
use std::sync::OnceLock;

static LIMIT: OnceLock<usize> = OnceLock::new();
fn limit() -> usize {
    *LIMIT.get().expect("limit set")
}

pub fn set_limit(l: usize) {
    let _ = LIMIT.set(l);
}

/// a whole file as given (fuzz targets)
pub fn check_container_bytes(file: &[u8], log: &mut CaseLog) -> CaseResult {
    read_container(file, "raw", "(from the file)", log)
}

/// Constant-size allocations of codec implementations (stream state, window buffers).
/// (bzip2's decoder state is four times the block size its stream header announces: up to 3.6 MB)
const CODEC_SLACK: usize = 4 << 20;

fn alloc_bound(input_len: usize) -> usize {
    limit().max(64 * input_len) + 4096
}

fn idetail(schema: &str, input: &[u8], entry: &str, extra: Vec<(&str, Js)>) -> Js {
    let mut items = vec![("limit", Js::int(limit() as i128)), ("entry_point", Js::str(entry)), ("schema", Js::str(schema)), ("input", bytes_js(input))];
    items.extend(extra);
    Js::obj(items)
}

/// Classify where an over-limit request came from, by the schema kinds present.
fn alloc_class(node: &SNode, env: &Env) -> &'static str {
    fn has(n: &SNode, env: &Env, f: &dyn Fn(&SNode) -> bool, d: usize) -> bool {
        if d > 8 {
            return false;
        }
        let n = deref(n, env);
        f(n)
            || match &n.ty {
                SType::Array(i) | SType::Map(i) => has(i, env, f, d + 1),
                SType::Union(bs) => bs.iter().any(|b| has(b, env, f, d + 1)),
                SType::Record(_, fs) => fs.iter().any(|x| has(&x.node, env, f, d + 1)),
                _ => false,
            }
    }
    if has(node, env, &|n| matches!(n.ty, SType::Map(_)), 0) {
        "map"
    } else if has(node, env, &|n| matches!(n.ty, SType::Fixed(..)), 0) {
        "fixed"
    } else if has(node, env, &|n| matches!(n.ty, SType::Array(_)), 0) {
        "array"
    } else {
        "other"
    }
}

fn judge_usage(u: Usage, input_len: usize, class: &str, entry: &str, d: impl FnOnce() -> Js) -> CaseResult {
    if u.max_request > alloc_bound(input_len) {
        return Err(Fail::new(
            format!("C05/alloc-over-limit/{entry}/{class}"),
            format!("a single allocation of {} bytes was requested (limit {}, input {} bytes)", u.max_request, limit(), input_len),
        )
        .with(d()));
    }
    Ok(())
}

/// All datum-level entry points on one input.
pub fn check_datum(sub: &Subject, input: &[u8], log: &mut CaseLog) -> CaseResult {
    let class = alloc_class(&sub.node, &sub.env);
    let reader = GenericDatumReader::builder(&sub.schema).build().map_err(|e| Fail::new("C05/reader-build", format!("{e}")))?;
    // 1. generic decoder
    log.sub_evals += 1;
    let (r, u) = measure(|| {
        guard(|| {
            let mut s: &[u8] = input;
            reader.read_value(&mut s).map(|_| input.len() - s.len())
        })
    });
    let r = r.map_err(|p| Fail::new(format!("C05/panic/read_value/{}", p.key_loc()), format!("read_value panicked at {}: {}", p.short_loc(), p.msg)).with(idetail(&sub.text, input, "read_value", vec![])))?;
    if let Ok(used) = &r {
        if *used >= 2 {
            log.label("consumed>=2");
        }
    }
    judge_usage(u, input.len(), class, "read_value", || idetail(&sub.text, input, "read_value", vec![]))?;
    // 2. schema-aware deserializer, deserialize_any and typed
    // every array or map may hold as many zero-width items as the limit allows, and the input can
    // open at most one collection per byte: the property's bound is one in BOTH the input size and
    // the limit (an unbounded loop still exceeds it at once)
    // ... and every item is a tree of at most as many elements as the schema has nodes
    let nodes = 1 + sub.text.matches('{').count() as u64 + sub.text.matches('"').count() as u64 / 2;
    let budget = (8 * input.len() as u64 + 4096 + (limit() as u64).saturating_mul(input.len() as u64 + 1)).saturating_mul(nodes);
    for (name, which) in [("read_deser<any>", 0), ("read_deser<typed>", 1)] {
        log.sub_evals += 1;
        dynserde::reset_work(budget);
        let (r, u) = measure(|| {
            guard(|| {
                let mut s: &[u8] = input;
                if which == 0 {
                    reader.read_deser::<AnyTree>(&mut s).map(|_| ()).map_err(|e| format!("{e}"))
                } else {
                    dynserde::with_ctx(&sub.node, &sub.env, false, || reader.read_deser::<DynOutLenient>(&mut s)).map(|_| ()).map_err(|e| format!("{e}"))
                }
            })
        });
        let r = r.map_err(|p| Fail::new(format!("C05/panic/{name}/{}", p.key_loc()), format!("{name} panicked at {}: {}", p.short_loc(), p.msg)).with(idetail(&sub.text, input, name, vec![])))?;
        if dynserde::work() > budget || matches!(&r, Err(e) if e.contains(WORK_EXCEEDED)) {
            return Err(Fail::new(
                format!("C05/unbounded-work/{name}/{class}"),
                format!("the deserializer visited more than {budget} elements for {} input bytes (limit {})", input.len(), limit()),
            )
            .with(idetail(&sub.text, input, name, vec![])));
        }
        // allocation is judged for the allocation-free visitor only: the typed one builds a value
        // tree of its own
        if which == 0 {
            judge_usage(u, input.len(), class, name, || idetail(&sub.text, input, name, vec![]))?;
        }
    }
    Ok(())
}

pub fn schema_cfg() -> SgenCfg {
    SgenCfg { node_budget: 12, max_depth: 3, recursion: true, ..SgenCfg::full() }
}

pub fn case_hostile_datum(c: &mut Choices, log: &mut CaseLog) -> CaseResult {
    let Some(sub) = gen_subject(c, &schema_cfg(), log)? else {
        return Ok(());
    };
    let (input, injected) = hostile_datum(&sub.node, &sub.env, c, limit());
    log.label("case");
    log.nontrivial = injected > 0;
    if injected > 0 {
        log.label("hostile");
    }
    log.hash = fnv(&[sub.text.as_bytes(), &input].concat());
    log.sample = Some(idetail(&sub.text, &input, "all datum entry points", vec![("hostile_decisions", Js::int(injected as i128))]));
    check_datum(&sub, &input, log)?;
    // the same datum behind a single-object header
    // the header the reader expects (the library's own fingerprint: logical types make it differ from the spec's)
    if let Ok(r) = GenericSingleObjectReader::builder().schema(sub.schema.clone()).build() {
        let fp = sub.schema.fingerprint::<apache_avro::rabin::Rabin>();
        let mut msg = vec![0xC3, 0x01];
        msg.extend_from_slice(&fp.bytes);
        msg.extend_from_slice(&input);
        log.sub_evals += 1;
        let (res, u) = measure(|| guard(|| r.read_value(&mut &msg[..]).map(|_| ())));
        res.map_err(|p| Fail::new(format!("C05/panic/single_object/{}", p.key_loc()), format!("single-object read_value panicked at {}: {}", p.short_loc(), p.msg)).with(idetail(&sub.text, &msg, "single_object", vec![])))?
            .ok();
        judge_usage(u, msg.len(), alloc_class(&sub.node, &sub.env), "single_object", || idetail(&sub.text, &msg, "single_object", vec![]))?;
    }
    Ok(())
}

/// choices: [schema index, len, b0, b1]
pub fn case_exhaustive(c: &mut Choices, log: &mut CaseLog) -> CaseResult {
    let schemas = small_schemas();
    let si = c.raw() as usize % schemas.len();
    let len = (c.raw() % 3) as usize;
    let b0 = c.raw() as u8;
    let b1 = c.raw() as u8;
    let input: Vec<u8> = [b0, b1][..len].to_vec();
    let sub = subject_from_text(schemas[si]).map_err(|e| Fail::new("HARNESS/small-schema", e))?;
    log.label("case");
    log.nontrivial = len > 0;
    log.hash = fnv(&[&[si as u8, len as u8], &input[..]].concat());
    check_datum(&sub, &input, log)
}

// ---------------------------------------------------------------- containers

fn read_container(file: &[u8], entry: &str, schema_text: &str, log: &mut CaseLog) -> CaseResult {
    for deser in [false, true] {
        log.sub_evals += 1;
        // objects: every block may declare as many (zero-width) objects as the limit allows, and a
        // block takes at least 18 bytes of the file
        let budget = 8 * file.len() as u64 + 4096 + (limit() as u64).saturating_mul(file.len() as u64 / 18 + 1);
        // the number of OBJECTS is bounded by the budget; each object is a tree of at most as many
        // elements as its schema has nodes (the schema is part of the file): visited elements are
        // bounded by objects x schema nodes
        let nodes = if schema_text.starts_with("(from") { 64 } else { 1 + schema_text.matches('{').count() as u64 + schema_text.matches('"').count() as u64 / 2 };
        let element_budget = budget.saturating_mul(nodes);
        dynserde::reset_work(element_budget);
        let (r, u) = measure(|| {
            guard(|| {
                let reader = Reader::new(file).map_err(|e| format!("{e}"))?;
                let mut n = 0usize;
                // keep iterating after an error: the iteration itself has to come to an end
                if deser {
                    for _item in reader.into_deser_iter::<AnyTree>() {
                        n += 1;
                        if n as u64 > budget {
                            break;
                        }
                    }
                } else {
                    for _item in reader {
                        n += 1;
                        if n as u64 > budget {
                            break;
                        }
                    }
                }
                Ok::<usize, String>(n)
            })
        });
        let name = if deser { "container/into_deser_iter" } else { "container/reader" };
        let r = r.map_err(|p| Fail::new(format!("C05/panic/{name}/{}", p.key_loc()), format!("{name} panicked at {}: {}", p.short_loc(), p.msg)).with(idetail(schema_text, file, name, vec![])))?;
        if dynserde::work() > element_budget {
            return Err(Fail::new(format!("C05/unbounded-work/{name}"), format!("more than {element_budget} elements visited for a {}-byte file", file.len())).with(idetail(schema_text, file, name, vec![])));
        }
        if let Ok(n) = r {
            if n as u64 > budget {
                return Err(Fail::new(format!("C05/unbounded-work/{name}"), format!("more than {budget} items from a {}-byte file (limit {})", file.len(), limit())).with(idetail(schema_text, file, name, vec![])));
            }
        }
        // codec state (e.g. zstandard's 128 KiB input buffer) is a constant, not a declared length
        if u.max_request > alloc_bound(file.len()) + CODEC_SLACK {
            return Err(Fail::new(format!("C05/alloc-over-limit/{name}/{entry}"), format!("a single allocation of {} bytes (limit {}, file {} bytes)", u.max_request, limit(), file.len())).with(idetail(schema_text, file, name, vec![])));
        }
    }
    Ok(())
}

const HOSTILE_SCHEMAS: &[&str] = &[
    r#"{"type":"fixed","name":"F","size":LIMIT1}"#,
    r#"{"type":"fixed","name":"F","size":1099511627776}"#,
    r#"{"type":"fixed","name":"F","size":9223372036854775807}"#,
    r#"{"type":"record","name":"R","fields":[{"name":"a","type":{"type":"fixed","name":"F","size":LIMIT1}}]}"#,
    r#"{"type":"array","items":{"type":"fixed","name":"F","size":LIMIT1}}"#,
    r#"{"type":"fixed","name":"D","size":LIMIT1,"logicalType":"decimal","precision":4}"#,
    r#"{"type":"fixed","name":"D","size":1099511627776,"logicalType":"decimal","precision":4}"#,
    r#"{"type":"record","name":"R","fields":[{"name":"a","type":["null",{"type":"fixed","name":"D","size":LIMIT1,"logicalType":"decimal","precision":4}]}]}"#,
    r#"{"type":"fixed","name":"U","size":LIMIT1,"logicalType":"uuid"}"#,
    r#"{"type":"fixed","name":"P","size":LIMIT1,"logicalType":"duration"}"#,
    r#"{"type":"map","values":{"type":"fixed","name":"F","size":LIMIT1}}"#,
    r#"{"type":"array","items":"null"}"#,
    r#"{"type":"map","values":"null"}"#,
    r#"{"type":"array","items":{"type":"record","name":"E","fields":[]}}"#,
    r#"not json at all"#,
    r#"{"type":"record"}"#,
    r#"["int","int"]"#,
    r#""int""#,
];

pub fn case_hostile_container(c: &mut Choices, log: &mut CaseLog) -> CaseResult {
    // schema: generated or from the hostile list
    let (schema_text, node_env): (String, Option<(SNode, Env)>) = if c.chance(1, 2) {
        let t = HOSTILE_SCHEMAS[c.pick(HOSTILE_SCHEMAS.len())].replace("LIMIT1", &(2 * limit() + (1 << 20)).to_string()); // well beyond the bound incl. slack
        (t, None)
    } else {
        match gen_subject(c, &schema_cfg(), log)? {
            Some(s) => (s.text.clone(), Some((s.node, s.env))),
            None => return Ok(()),
        }
    };
    let mut marker = [0u8; 16];
    marker.copy_from_slice(&c.bytes(16));
    // codec metadata variants
    let codec_variants: &[Option<&[u8]>] = &[None, Some(b"null"), Some(b"deflate"), Some(b"snappy"), Some(b"bzip2"), Some(b"xz"), Some(b"zstandard"), Some(b"lz4"), Some(b"\xff\xfe"), Some(b"")];
    let codec = codec_variants[c.pick(codec_variants.len())];
    let mut meta: Vec<(String, Vec<u8>)> = vec![];
    if !c.chance(1, 12) {
        meta.push(("avro.schema".into(), schema_text.as_bytes().to_vec()));
    }
    if let Some(cd) = codec {
        meta.push(("avro.codec".into(), cd.to_vec()));
    }
    match c.pick(5) {
        0 => meta.push(("avro.codec.compression_level".into(), vec![])),
        1 => meta.push(("avro.codec.compression_level".into(), vec![3])),
        2 => meta.push(("avro.codec.compression_level".into(), vec![0, 200, 7, 9])),
        3 => meta.push(("avro.codec.compression_level".into(), vec![255])),
        _ => {}
    }
    let mut stats = LayoutStats::default();
    let mut file = {
        let mut layout = if c.bool() { Layout::Random(c) } else { Layout::Canonical };
        refocf::write_header(&meta, &mut layout, &marker, &mut stats)
    };
    // blocks: hostile counts and sizes
    let nblocks = c.pick(3);
    for _ in 0..nblocks {
        let payload: Vec<u8> = match &node_env {
            Some((n, e)) => hostile_datum(n, e, c, limit()).0,
            None => {
                let k = c.pick(20);
                c.bytes(k)
            }
        };
        let l = limit() as i64;
        let count = [1i64, 0, -1, 3, l, l + 1, 1 << 31, 1 << 62, i64::MAX, i64::MIN][c.weighted(&[6, 1, 1, 2, 1, 1, 1, 1, 1, 1])];
        let size = match c.weighted(&[6, 1, 1, 1, 1, 1, 1]) {
            0 => payload.len() as i64,
            1 => -1,
            2 => l + 1,
            3 => 1 << 40,
            4 => i64::MAX,
            5 => payload.len() as i64 + 5,
            _ => 0,
        };
        put_long(count, &mut file);
        put_long(size, &mut file);
        file.extend_from_slice(&payload);
        if !c.chance(1, 6) {
            file.extend_from_slice(&marker);
        }
    }
    if c.chance(1, 5) && !file.is_empty() {
        let cut = c.pick(file.len());
        file.truncate(cut);
    }
    log.label("case");
    log.nontrivial = true;
    log.hash = fnv(&file);
    log.sample = Some(idetail(&schema_text, &file, "container", vec![("codec", Js::Str(format!("{:?}", codec.map(|c| String::from_utf8_lossy(c).to_string()))))]));
    read_container(&file, "hostile-header-or-block", &schema_text, log)
}

/// Decompression bombs through the container reader and through Codec::decompress: choices = [codec, variant]
pub fn case_bomb(c: &mut Choices, log: &mut CaseLog) -> CaseResult {
    let codecs: [(Codec, &str); 5] = [
        (Codec::Deflate(Default::default()), "deflate"),
        (Codec::Snappy, "snappy"),
        (Codec::Zstandard(Default::default()), "zstandard"),
        (Codec::Bzip2(Bzip2Settings::new(1)), "bzip2"),
        (Codec::Xz(XzSettings::new(1)), "xz"),
    ];
    let (codec, name) = codecs[c.raw() as usize % codecs.len()];
    let variant = c.raw() % 3;
    let stored: Vec<u8> = match (variant, name) {
        (2, "snappy") => {
            // header declaring 2^32-1 bytes, no body, plus CRC
            let mut s = vec![0xff, 0xff, 0xff, 0xff, 0x0f];
            s.extend_from_slice(&[0, 0, 0, 0]);
            s
        }
        (v, _) => {
            let n = if v == 0 { 8 * limit() } else { limit() + 1 };
            let mut s = vec![0u8; n];
            codec.compress(&mut s).map_err(|e| Fail::new("HARNESS/bomb-compress", format!("{e}")))?;
            s
        }
    };
    log.label("case");
    log.nontrivial = true;
    log.hash = fnv(format!("bomb/{name}/{variant}").as_bytes());
    log.sample = Some(Js::obj(vec![("codec", Js::str(name)), ("variant", Js::int(variant as i128)), ("stored_len", Js::int(stored.len() as i128)), ("limit", Js::int(limit() as i128))]));
    // direct
    log.sub_evals += 1;
    let (r, u) = measure(|| {
        guard(|| {
            let mut s = stored.clone();
            codec.decompress(&mut s).map(|_| s.len())
        })
    });
    let r = r.map_err(|p| Fail::new(format!("C05/panic/decompress/{}", p.key_loc()), p.msg.clone()))?;
    if let Ok(n) = r {
        if n > limit() {
            return Err(Fail::new(format!("C05/bomb-inflated/{name}"), format!("{n} bytes decompressed, limit {}", limit())));
        }
    }
    // the stored clone itself is an allocation of stored.len(); growth by doubling may reach 2x the limit
    let bound = (2 * limit() + (1 << 20)).max(2 * stored.len());
    if u.max_request > bound {
        return Err(Fail::new(format!("C05/alloc-over-limit/decompress/{name}"), format!("a single allocation of {} bytes while decompressing (limit {})", u.max_request, limit())));
    }
    // through a container file
    let mut marker = [7u8; 16];
    marker[0] = variant as u8;
    let meta = vec![("avro.schema".to_string(), b"\"bytes\"".to_vec()), ("avro.codec".to_string(), name.as_bytes().to_vec())];
    let mut file = refocf::write_header(&meta, &mut Layout::Canonical, &marker, &mut LayoutStats::default());
    file.extend_from_slice(&refocf::write_block(1, &stored, &marker));
    log.sub_evals += 1;
    let (r, u) = measure(|| guard(|| Reader::new(&file[..]).map(|r| r.take(3).filter(|x| x.is_ok()).count()).unwrap_or(0)));
    let n = r.map_err(|p| Fail::new(format!("C05/panic/container-bomb/{}", p.key_loc()), p.msg.clone()))?;
    if n > 0 && variant != 1 {
        // variant 1 (limit+1 zeros) must be refused as well, but is reported under its own key
    }
    if n > 0 {
        return Err(Fail::new(format!("C05/bomb-inflated/container/{name}"), format!("a block inflating beyond the limit ({}) yielded {n} value(s)", limit())));
    }
    if u.max_request > bound.max(2 * file.len()) {
        return Err(Fail::new(format!("C05/alloc-over-limit/container-bomb/{name}"), format!("a single allocation of {} bytes (limit {})", u.max_request, limit())));
    }
    Ok(())
}

pub fn dispatch(campaign: &str, c: &mut Choices, log: &mut CaseLog) -> Option<CaseResult> {
    match campaign {
        "hostile_datum" => Some(case_hostile_datum(c, log)),
        "exhaustive" => Some(case_exhaustive(c, log)),
        "hostile_container" => Some(case_hostile_container(c, log)),
        "bomb" => Some(case_bomb(c, log)),
        "fuzz_datum_c05" => Some(crate::fuzzglue::case_datum_c05(c, log)),
        "fuzz_container" => Some(crate::fuzzglue::case_container(c, log)),
        _ => None,
    }
}

const RULE: &str = "one child process per allocation limit (4 KiB, 64 KiB, 1 MiB; thorough also 16 MiB), each calling max_allocation_bytes(L) first. Inputs: ALL byte strings of length <= 2 against 25 small schemas; structure-aware hostile datums for generated schemas (every length/count/index honest or from a table: 0, -1, L/size-1, L/size, L/size+1, L+-1, 2L, 2^31, 2^32, 2^40, 2^62, i64::MAX/MIN, 11-byte and overlong varints, out-of-range enum/union indices, negative block counts with false byte sizes, missing terminators, truncation, bit flips); hostile container files (hostile embedded schemas incl. fixed of size L+1/2^40/2^63-1, codec metadata variants incl. empty/long compression level and unknown/non-UTF-8 codec names, missing avro.schema, hostile block counts and sizes, missing markers, truncation); decompression bombs per codec (8L and L+1 zeros, snappy header declaring 2^32-1). \
    Entry points: GenericDatumReader::read_value, read_deser (deserialize_any and typed), GenericSingleObjectReader, Reader::new + iteration, Reader::into_deser_iter, Codec::decompress. Oracle: no panic (caught, keyed by location) and no abort (child exit status; in-flight case replayed); deserializer work counted in visited elements <= 8*len + L + 4096; largest single allocation request measured by a counting global allocator <= max(L, 64*len) + 4 KiB (decompression: 2L + 1 MiB). \
    Non-trivial: at least one hostile decision taken / non-empty exhaustive input. Distinct by hash of (schema, input).";

/// Child: run all campaigns under one limit.
pub fn run_child(mut chk: Check, lim: usize) -> ! {
    let got = apache_avro::util::max_allocation_bytes(lim);
    if got != lim {
        infra("could not set the allocation limit first in the child");
    }
    let _ = LIMIT.set(lim);
    // warm up lazily initialised statics (validator regexes, ...) so that their one-time
    // allocations are not attributed to an input
    for t in small_schemas() {
        let _ = apache_avro::Schema::parse_str(t);
    }
    let _ = apache_avro::Schema::parse_str(r#"{"type":"record","name":"a.b.W","aliases":["x.Y"],"fields":[{"name":"f","type":{"type":"enum","name":"E","symbols":["A"]},"default":"A"}]}"#);
    chk.rule = RULE.into();
    chk.replay_files(dispatch);
    if chk.replay_only.is_none() {
        // exhaustive part only for one limit (it does not depend on L except through the bound)
        if lim == 64 << 10 {
            let ns = small_schemas().len() as u64;
            let mut inputs: Vec<Vec<u64>> = vec![];
            let step = if chk.thorough() { 1 } else { 3 };
            for si in 0..ns {
                inputs.push(vec![si, 0, 0, 0]);
                for b0 in 0..256u64 {
                    inputs.push(vec![si, 1, b0, 0]);
                    let mut b1 = b0 % step;
                    while b1 < 256 {
                        inputs.push(vec![si, 2, b0, b1]);
                        b1 += step;
                    }
                }
            }
            chk.explicit("exhaustive", &inputs, case_exhaustive);
        }
        let mut bombs = vec![];
        for i in 0..5u64 {
            for v in 0..3u64 {
                bombs.push(vec![i, v]);
            }
        }
        chk.explicit("bomb", &bombs, case_bomb);
    }
    let n = chk.scale(60_000, 1_000_000);
    chk.campaign(CampaignCfg::new("hostile_datum", n), case_hostile_datum);
    chk.campaign(CampaignCfg::new("hostile_container", n / 2), case_hostile_container);
    chk.finish()
}

/// Parent: one child per limit, merge their evidence.
pub fn run(mut chk: Check) -> ! {
    if let Err(e) = refbin::self_test() {
        infra(&format!("refbin self-test failed: {e}"));
    }
    let limits: Vec<usize> = if chk.thorough() { vec![4 << 10, 64 << 10, 1 << 20, 16 << 20] } else { vec![4 << 10, 64 << 10, 1 << 20] };
    let exe = std::env::current_exe().unwrap_or_else(|_| infra("current_exe"));
    let scratch = std::env::temp_dir().join(format!("avro-verif-c05-{}", std::process::id()));
    let _ = std::fs::create_dir_all(&scratch);
    let mut worst = 0;
    let mut merged_evals: u64 = 0;
    let mut merged_distinct: u64 = 0;
    let mut samples: Vec<Js> = vec![];
    let mut per_limit: Vec<(String, Js)> = vec![];
    let mut violations = 0i128;
    if let Some(replay) = &chk.replay_only {
        // replay under every limit
        for lim in &limits {
            let st = std::process::Command::new(&exe).args(["C05", "--child", &lim.to_string(), "--replay", &replay.to_string_lossy()]).env("VERIF_CHILD", "1").status();
            match st {
                Ok(s) if s.code() == Some(1) => worst = 1,
                Ok(s) if s.code().is_none() => {
                    println!("VIOLATION property=C05 replay={}", replay.display());
                    println!("  key=C05/abort msg=the process died by a signal while replaying under limit {lim}");
                    worst = 1;
                }
                _ => {}
            }
        }
        std::process::exit(worst);
    }
    for lim in &limits {
        let ev = scratch.join(format!("evidence-{lim}.json"));
        let inflight = scratch.join(format!("inflight-{lim}"));
        let _ = std::fs::create_dir_all(&inflight);
        let status = std::process::Command::new(&exe)
            .args(["C05", "--child", &lim.to_string(), "--tier", &chk.tier])
            .env("VERIF_CHILD", "1")
            .env("VERIF_EVIDENCE_PATH", &ev)
            .env("VERIF_INFLIGHT_DIR", &inflight)
            .env("VERIF_SEED", chk.seed.to_string())
            .status()
            .unwrap_or_else(|e| infra(&format!("cannot spawn child: {e}")));
        match status.code() {
            Some(0) => {}
            Some(1) => worst = worst.max(1),
            Some(c) => {
                println!("INCONCLUSIVE: child for limit {lim} exited with {c}");
                if worst == 0 {
                    worst = 2;
                }
            }
            None => {
                // died by a signal: find the in-flight case that reproduces it
                let mut found = false;
                let mut files: Vec<_> = std::fs::read_dir(&inflight).map(|rd| rd.filter_map(|e| e.ok()).map(|e| e.path()).collect()).unwrap_or_default();
                files.sort();
                for f in files {
                    let st = std::process::Command::new(&exe).args(["C05", "--child", &lim.to_string(), "--replay", &f.to_string_lossy()]).env("VERIF_CHILD", "1").status();
                    if matches!(st, Ok(s) if s.code().is_none()) {
                        let dir = out_root().join("replays").join("C05");
                        let _ = std::fs::create_dir_all(&dir);
                        let dest = dir.join(format!("abort-limit{lim}-{}.json", f.file_stem().map(|s| s.to_string_lossy().to_string()).unwrap_or_default()));
                        let _ = std::fs::copy(&f, &dest);
                        println!("VIOLATION property=C05 replay={}", dest.display());
                        println!("  key=C05/abort msg=the process was killed by a signal (abort / stack overflow / out of memory) on this input under limit {lim}");
                        found = true;
                        violations += 1;
                        break;
                    }
                }
                if !found {
                    println!("INCONCLUSIVE: child for limit {lim} died by a signal and no in-flight case reproduces it");
                    if worst == 0 {
                        worst = 2;
                    }
                } else {
                    worst = 1;
                }
            }
        }
        if let Ok(text) = std::fs::read_to_string(&ev) {
            if let Ok(js) = json::parse_strict(&text) {
                let cov = js.get("coverage");
                merged_evals += cov.and_then(|c| c.get("evaluations")).and_then(|x| x.as_i128()).unwrap_or(0) as u64;
                merged_distinct += cov.and_then(|c| c.get("distinct_nontrivial")).and_then(|x| x.as_i128()).unwrap_or(0) as u64;
                violations += js.get("violations").and_then(|x| x.as_i128()).unwrap_or(0);
                if let Some(Js::Arr(s)) = cov.and_then(|c| c.get("samples")) {
                    for x in s.iter().take(3) {
                        samples.push(x.clone());
                    }
                }
                per_limit.push((format!("limit_{lim}"), cov.cloned().unwrap_or(Js::Null)));
            }
        }
    }
    let _ = std::fs::remove_dir_all(&scratch);
    // thorough tier: coverage-guided campaigns under a 1 MiB limit (this process decodes nothing else)
    chk.fuzz_stage("c05_datum", "fuzz_datum_c05", 60_000, 512, &crate::fuzzglue::seeds_datum(), crate::fuzzglue::case_datum_c05);
    chk.fuzz_stage("c05_container", "fuzz_container", 40_000, 2048, &crate::fuzzglue::seeds_container(), crate::fuzzglue::case_container);
    merged_evals += chk.evaluations;
    merged_distinct += chk.distinct.len() as u64;
    if !chk.violations.is_empty() {
        violations += chk.violations.len() as i128;
        worst = 1;
    }
    let fuzz_extra: Vec<(String, Js)> = chk.extra.drain(..).collect();
    if samples.is_empty() {
        samples.push(Js::str("(no sample: children did not report)"));
    }
    let wall = chk.start.elapsed().as_secs_f64();
    let ev = Js::Obj(vec![
        ("property_id".into(), Js::str("C05")),
        ("tier".into(), Js::str(if chk.thorough() { "thorough" } else { "quick" })),
        ("seed".into(), Js::int(chk.seed as i128)),
        ("level".into(), Js::str("exploration")),
        (
            "coverage".into(),
            Js::Obj(vec![
                ("evaluations".into(), Js::int(merged_evals as i128)),
                ("distinct_nontrivial".into(), Js::int(merged_distinct as i128)),
                ("rule".into(), Js::str(RULE)),
                ("samples".into(), Js::Arr(samples)),
                ("limits".into(), Js::Arr(limits.iter().map(|l| Js::int(*l as i128)).collect())),
                ("per_limit".into(), Js::Obj(per_limit)),
                ("libfuzzer".into(), Js::Obj(fuzz_extra)),
            ]),
        ),
        ("assumptions".into(), Js::Arr(vec![Js::str("nesting depth of the data is bounded by the generator (unbounded recursion depth is an acknowledged non-goal)"), Js::str("a hang would end in the harness's watchdog-less child never returning; work is bounded by counters in the serde visitors and by allocation in the generic decoder")])),
        ("wall_s".into(), Js::Num(format!("{wall:.2}"))),
        ("violations".into(), Js::int(violations)),
    ]);
    let path = out_root().join("evidence").join("C05.json");
    let _ = std::fs::create_dir_all(path.parent().unwrap());
    if let Err(e) = std::fs::write(&path, ev.render()) {
        infra(&format!("cannot write evidence: {e}"));
    }
    println!("C05 tier={} seed={} evaluations={merged_evals} distinct_nontrivial={merged_distinct} violations={violations} wall={wall:.1}s", chk.tier, chk.seed);
    if worst == 0 && merged_distinct < 2 {
        infra("children reported fewer than 2 distinct non-trivial cases");
    }
    std::process::exit(worst);
}
