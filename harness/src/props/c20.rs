//! C20 — multi-schema parsing is order-independent and deterministic.

use crate::choices::{fnv, Choices};
use crate::json::Js;
use crate::refcheck::{dump, first_diff};
use crate::runner::*;
use crate::spec::*;
use crate::specparse;
use crate::tolib::{from_lib, to_lib};
use crate::vgen;
use apache_avro::reader::datum::GenericDatumReader;
use apache_avro::schema::ResolvedSchema;
use apache_avro::writer::datum::GenericDatumWriter;
use apache_avro::Schema;
use std::collections::{BTreeMap, BTreeSet};

#[derive(Clone, Debug, Default)]
pub struct SetInfo {
    pub texts: Vec<String>,
    /// classes injected by the generator
    pub dangling: bool,
    pub top_duplicate: bool,
    pub nested_sibling_ref: bool,
    pub nested_duplicate: bool,
    pub cross_refs: usize,
}

const NSS: &[&str] = &["", "n1", "n1.sub", "n2"];

pub struct GenCfg {
    /// members that are a logical type on a fixed
    pub logical_members: bool,
    pub allow_nested_sibling_ref: bool,
    pub allow_nested_duplicate: bool,
    pub allow_bad: bool,
}

pub fn gen_set(c: &mut Choices, cfg: &GenCfg) -> SetInfo {
    let k = 1 + c.weighted(&[1, 3, 4, 3, 2]);
    let mut info = SetInfo::default();
    let names: Vec<(String, String)> = (0..k).map(|i| (NSS[c.pick(NSS.len())].to_string(), format!("T{i}"))).collect();
    let full = |i: usize| if names[i].0.is_empty() { names[i].1.clone() } else { format!("{}.{}", names[i].0, names[i].1) };
    // nested definitions made available to siblings: (fullname)
    let mut nested: Vec<String> = vec![];
    let render_ref = |c: &mut Choices, target_full: &str, from_ns: &str| -> String {
        let tns = ns_of(target_full);
        if tns == from_ns && !tns.is_empty() && c.bool() {
            format!("\"{}\"", simple_of(target_full))
        } else if tns.is_empty() && !from_ns.is_empty() {
            // a name without namespace is referenced from inside a namespace with a leading dot
            // (half of the time; otherwise a primitive stands in)
            if c.bool() { format!("\".{target_full}\"") } else { "\"long\"".to_string() }
        } else {
            format!("\"{target_full}\"")
        }
    };
    for i in 0..k {
        let (ns, name) = &names[i];
        let header = match c.pick(3) {
            0 if !ns.is_empty() => format!("\"name\":\"{ns}.{name}\""),
            _ if ns.is_empty() => format!("\"name\":\"{name}\""),
            _ => format!("\"name\":\"{name}\",\"namespace\":\"{ns}\""),
        };
        let kind = c.weighted(&[7, 1, 1, if cfg.logical_members { 2 } else { 0 }]);
        let text = match kind {
            1 => format!("{{\"type\":\"enum\",{header},\"symbols\":[\"A\",\"B\",\"C\"]}}"),
            2 => format!("{{\"type\":\"fixed\",{header},\"size\":{}}}", 1 + c.pick(4)),
            3 => match c.pick(3) {
                // a named type that is more than its fixed: the logical type has to survive however
                // the member is reached (parsed on its own turn or on demand through a reference)
                0 => format!("{{\"type\":\"fixed\",{header},\"size\":{},\"logicalType\":\"decimal\",\"precision\":4,\"scale\":1}}", 2 + c.pick(4)),
                1 => format!("{{\"type\":\"fixed\",{header},\"size\":12,\"logicalType\":\"duration\"}}"),
                _ => format!("{{\"type\":\"fixed\",{header},\"size\":16,\"logicalType\":\"uuid\"}}"),
            },
            _ => {
                let nf = 1 + c.pick(3);
                let mut fields = vec![];
                for f in 0..nf {
                    let ty = match c.weighted(&[3, 5, 2, if cfg.allow_nested_sibling_ref && !nested.is_empty() { 3 } else { 0 }, if cfg.allow_bad { 1 } else { 0 }]) {
                        0 => ["\"int\"", "\"string\"", "\"boolean\"", "{\"type\":\"array\",\"items\":\"long\"}"][c.pick(4)].to_string(),
                        1 => {
                            // reference to a member
                            let j = c.pick(k);
                            let r = render_ref(c, &full(j), ns);
                            if r != "\"long\"" {
                                info.cross_refs += usize::from(j != i);
                            }
                            if j < i {
                                match c.pick(3) {
                                    0 => r,
                                    1 => format!("{{\"type\":\"array\",\"items\":{r}}}"),
                                    _ => format!("[\"null\",{r}]"),
                                }
                            } else {
                                match c.pick(3) {
                                    0 => format!("{{\"type\":\"map\",\"values\":{r}}}"),
                                    1 => format!("{{\"type\":\"array\",\"items\":{r}}}"),
                                    _ => format!("[\"null\",{r}]"),
                                }
                            }
                        }
                        2 => {
                            // nested definition
                            let nname = format!("N{i}_{f}");
                            let nfull = if ns.is_empty() { nname.clone() } else { format!("{ns}.{nname}") };
                            let dup = cfg.allow_nested_duplicate && !nested.is_empty() && c.chance(1, 3);
                            if dup {
                                let other = nested[c.pick(nested.len())].clone();
                                info.nested_duplicate = true;
                                format!("{{\"type\":\"fixed\",\"name\":\"{other}\",\"size\":{}}}", 5 + c.pick(3))
                            } else {
                                nested.push(nfull);
                                format!("{{\"type\":\"fixed\",\"name\":\"{nname}\",\"size\":{}}}", 1 + c.pick(3))
                            }
                        }
                        3 => {
                            let t = nested[c.pick(nested.len())].clone();
                            let r = render_ref(c, &t, ns);
                            if r != "\"long\"" {
                                info.nested_sibling_ref = true;
                            }
                            r
                        }
                        _ => {
                            info.dangling = true;
                            "\"missing.Type\"".to_string()
                        }
                    };
                    fields.push(format!("{{\"name\":\"f{f}\",\"type\":{ty}}}"));
                }
                format!("{{\"type\":\"record\",{header},\"fields\":[{}]}}", fields.join(","))
            }
        };
        info.texts.push(text);
    }
    if cfg.allow_bad && k >= 2 && c.chance(1, 8) {
        // the same full name as two inputs
        let i = c.pick(k);
        let t = info.texts[i].clone();
        info.texts.push(t.replace("\"size\":", "\"size\":1").replace("\"symbols\":[\"A\"", "\"symbols\":[\"Z\",\"A\""));
        info.top_duplicate = true;
    }
    info
}

/// Reference predicate from the texts alone: every reference resolves within the set and no
/// full name is defined twice.
pub fn should_parse(texts: &[String]) -> Result<(bool, Env), String> {
    let mut defs: BTreeMap<String, SNode> = BTreeMap::new();
    let mut dup = false;
    let mut refs: BTreeSet<String> = BTreeSet::new();
    fn walk(n: &SNode, defs: &mut BTreeMap<String, SNode>, dup: &mut bool, refs: &mut BTreeSet<String>) {
        match &n.ty {
            SType::Array(i) | SType::Map(i) => walk(i, defs, dup, refs),
            SType::Union(bs) => bs.iter().for_each(|b| walk(b, defs, dup, refs)),
            SType::Record(named, fields) => {
                if defs.insert(named.fullname(), n.clone()).is_some() {
                    *dup = true;
                }
                fields.iter().for_each(|f| walk(&f.node, defs, dup, refs));
            }
            SType::Enum(named, ..) | SType::Fixed(named, _) => {
                if defs.insert(named.fullname(), n.clone()).is_some() {
                    *dup = true;
                }
            }
            SType::Ref(r) => {
                refs.insert(r.clone());
            }
            _ => {}
        }
    }
    for t in texts {
        let n = specparse::node_from_text(t)?;
        walk(&n, &mut defs, &mut dup, &mut refs);
    }
    let resolved = refs.iter().all(|r| defs.contains_key(r));
    Ok((!dup && resolved, defs))
}

/// Inputs ordered so that every input comes after the inputs it references (None if cyclic).
fn dependency_order(texts: &[String]) -> Option<Vec<usize>> {
    let nodes: Vec<SNode> = texts.iter().filter_map(|t| specparse::node_from_text(t).ok()).collect();
    if nodes.len() != texts.len() {
        return None;
    }
    let owner = |name: &str| -> Option<usize> { nodes.iter().position(|n| env_of(n).contains_key(name)) };
    fn refs(n: &SNode, out: &mut Vec<String>) {
        match &n.ty {
            SType::Array(i) | SType::Map(i) => refs(i, out),
            SType::Union(bs) => bs.iter().for_each(|b| refs(b, out)),
            SType::Record(_, fields) => fields.iter().for_each(|f| refs(&f.node, out)),
            SType::Ref(r) => out.push(r.clone()),
            _ => {}
        }
    }
    let deps: Vec<Vec<usize>> = nodes
        .iter()
        .enumerate()
        .map(|(i, n)| {
            let mut r = vec![];
            refs(n, &mut r);
            let mut d: Vec<usize> = r.iter().filter_map(|x| owner(x)).filter(|j| *j != i).collect();
            d.sort();
            d.dedup();
            d
        })
        .collect();
    let mut done: Vec<usize> = vec![];
    while done.len() < nodes.len() {
        let next = (0..nodes.len()).find(|i| !done.contains(i) && deps[*i].iter().all(|d| done.contains(d)))?;
        done.push(next);
    }
    Some(done)
}

fn permutations(n: usize) -> Vec<Vec<usize>> {
    let mut out = vec![];
    let mut cur: Vec<usize> = (0..n).collect();
    fn heap(k: usize, a: &mut Vec<usize>, out: &mut Vec<Vec<usize>>) {
        if k <= 1 {
            out.push(a.clone());
            return;
        }
        for i in 0..k {
            heap(k - 1, a, out);
            if k % 2 == 0 {
                a.swap(i, k - 1);
            } else {
                a.swap(0, k - 1);
            }
        }
    }
    heap(n, &mut cur, &mut out);
    out
}

fn sdetail(info: &SetInfo, extra: Vec<(&str, Js)>) -> Js {
    let mut items = vec![("schemas", Js::Arr(info.texts.iter().map(|t| Js::str(t)).collect()))];
    items.extend(extra);
    Js::obj(items)
}

/// The oracle for one set. `reps`: repetitions per permutation (hash orders vary per call).
pub fn check_set(info: &SetInfo, reps: usize, c: &mut Choices, log: &mut CaseLog) -> CaseResult {
    let (want_ok, env) = should_parse(&info.texts).map_err(|e| Fail::new("HARNESS/c20-specparse", e))?;
    let n = info.texts.len();
    let perms = if n <= 4 { permutations(n) } else { permutations(n).into_iter().step_by(5).collect() };
    let leading_dot = info.texts.iter().any(|t| t.contains("\".T") || t.contains("\".N"));
    let class = if info.nested_sibling_ref {
        "nested-definition-referenced-by-sibling"
    } else if info.nested_duplicate {
        "nested-duplicate"
    } else if info.top_duplicate {
        "top-level-duplicate"
    } else if info.dangling {
        "dangling-reference"
    } else if leading_dot {
        // a reference to a null-namespace type from inside a namespace: parsed as a name without
        // namespace, which every later consumer re-qualifies with the enclosing namespace (the
        // root cause of C10/null-namespace-inherited); the parse results are still compared
        "null-namespace-reference"
    } else {
        "plain"
    };
    // reference results: dump of the schema obtained for each input, from the first successful run
    let mut reference: Option<Vec<Js>> = None;
    let mut ok_runs = 0usize;
    let mut err_runs = 0usize;
    let mut first_err = String::new();
    let mut parsed_sets: Vec<(Vec<usize>, Vec<Schema>)> = vec![];
    for perm in &perms {
        for rep in 0..reps {
            log.sub_evals += 1;
            let ordered: Vec<&str> = perm.iter().map(|i| info.texts[*i].as_str()).collect();
            let r = guard(|| Schema::parse_list(ordered.clone())).map_err(|p| Fail::new(format!("C20/panic/{}", p.key_loc()), format!("parse_list panicked at {}: {}", p.short_loc(), p.msg)).with(sdetail(info, vec![("order", Js::Str(format!("{perm:?}")))])))?;
            match r {
                Ok(schemas) => {
                    ok_runs += 1;
                    if schemas.len() != n {
                        return Err(Fail::new("C20/output-count", format!("{} outputs for {n} inputs", schemas.len())).with(sdetail(info, vec![])));
                    }
                    // outputs are in input order: output p is the schema of input perm[p]
                    let mut by_input: Vec<Js> = vec![Js::Null; n];
                    for (p, s) in schemas.iter().enumerate() {
                        by_input[perm[p]] = dump(s);
                    }
                    match &reference {
                        None => reference = Some(by_input),
                        Some(refd) => {
                            for i in 0..n {
                                if let Some(d) = first_diff(&refd[i], &by_input[i], "") {
                                    return Err(Fail::new(
                                        format!("C20/order-dependent-result/{class}"),
                                        format!("input {i} parses to a different schema under order {perm:?} (repetition {rep}): {d}"),
                                    )
                                    .with(sdetail(info, vec![])));
                                }
                            }
                        }
                    }
                    if rep == 0 && parsed_sets.len() < 3 {
                        parsed_sets.push((perm.clone(), schemas));
                    }
                }
                Err(e) => {
                    err_runs += 1;
                    if first_err.is_empty() {
                        first_err = format!("order {perm:?}: {e}");
                    }
                }
            }
        }
    }
    if ok_runs > 0 && err_runs > 0 {
        return Err(Fail::new(
            format!("C20/outcome-depends-on-order-or-run/{class}"),
            format!("{ok_runs} of {} identical-input runs succeeded and {err_runs} failed (e.g. {first_err})", ok_runs + err_runs),
        )
        .with(sdetail(info, vec![])));
    }
    if want_ok && ok_runs == 0 {
        return Err(Fail::new(format!("C20/resolvable-set-rejected/{class}"), format!("every reference resolves within the set and no name is defined twice, but parsing fails: {first_err}")).with(sdetail(info, vec![])));
    }
    if !want_ok && err_runs == 0 && (info.nested_duplicate || info.top_duplicate) && !info.dangling {
        // parse_list letting a second definition through is the known finding; the duplicate must
        // then at least be caught when the schemas are resolved together (which every writer and
        // reader built with schemata does)
        for (perm, schemas) in &parsed_sets {
            log.sub_evals += 1;
            if ResolvedSchema::new_with_schemata(schemas.iter().collect()).is_ok() {
                return Err(Fail::new(
                    format!("C20/duplicate-definition-survives-resolution/{class}"),
                    format!("a full name is defined twice in the set, parse_list accepted it (order {perm:?}) and ResolvedSchema::new_with_schemata accepts the result as well"),
                )
                .with(sdetail(info, vec![])));
            }
        }
    }
    if !want_ok && err_runs == 0 {
        return Err(Fail::new(format!("C20/unresolvable-or-duplicate-set-accepted/{class}"), "the set has a dangling reference or defines a full name twice, but parsing succeeds".to_string()).with(sdetail(info, vec![])));
    }
    if ok_runs == 0 {
        return Ok(());
    }
    // parse_str_with_list: a main schema referencing every member, the members as the list
    {
        let fields: Vec<String> = env.keys().filter(|k| info.texts.iter().any(|t| t.contains(&format!("\"{}\"", simple_of(k))))).enumerate().map(|(i, k)| format!("{{\"name\":\"m{i}\",\"type\":[\"null\",\"{k}\"]}}")).collect();
        let main = format!("{{\"type\":\"record\",\"name\":\"VerifMain\",\"fields\":[{}]}}", fields.join(","));
        let list: Vec<&str> = info.texts.iter().map(|t| t.as_str()).collect();
        let r = guard(|| Schema::parse_str_with_list(&main, list.clone())).map_err(|p| Fail::new(format!("C20/panic/{}", p.key_loc()), p.msg.clone()).with(sdetail(info, vec![])))?;
        match r {
            Ok((_, schemata)) => {
                for (i, s) in schemata.iter().enumerate() {
                    if let Some(d) = first_diff(&reference.as_ref().unwrap()[i], &dump(s), "") {
                        return Err(Fail::new(format!("C20/parse-str-with-list-differs/{class}"), format!("member {i}: {d}")).with(sdetail(info, vec![("main", Js::Str(main.clone()))])));
                    }
                }
            }
            Err(e) => return Err(Fail::new(format!("C20/parse-str-with-list-rejects/{class}"), format!("{e}")).with(sdetail(info, vec![("main", Js::Str(main.clone()))]))),
        }
    }
    // the outputs resolve together, and values cross orderings. ResolvedSchema::new_with_schemata
    // wants definitions before references, so the outputs are handed over in dependency order;
    // sets with reference cycles across inputs cannot be ordered and skip this part.
    let Some(topo) = dependency_order(&info.texts) else {
        log.label("cyclic_across_inputs");
        return Ok(());
    };
    let (perm_a, set_a_raw) = &parsed_sets[0];
    let (perm_b, set_b_raw) = parsed_sets.last().unwrap();
    let reorder = |perm: &Vec<usize>, set: &Vec<Schema>| -> Vec<Schema> { topo.iter().map(|i| set[perm.iter().position(|x| x == i).unwrap()].clone()).collect() };
    let set_a = &reorder(perm_a, set_a_raw);
    let set_b = &reorder(perm_b, set_b_raw);
    let topo_perm = topo.clone();
    let (perm_a, perm_b) = (&topo_perm, &topo_perm);
    for (perm, set) in [(perm_a, set_a), (perm_b, set_b)] {
        if let Err(e) = ResolvedSchema::new_with_schemata(set.iter().collect()) {
            return Err(Fail::new(format!("C20/outputs-do-not-resolve/{}", if leading_dot { "null-namespace-reference" } else { class }), format!("order {perm:?}: {e}")).with(sdetail(info, vec![])));
        }
    }
    let md = min_depths(&env);
    let vcfg = vgen::VgenCfg { big_collections: false, long_strings: false, ..vgen::VgenCfg::small() };
    for i in 0..n {
        let node = specparse::node_from_text(&info.texts[i]).map_err(|e| Fail::new("HARNESS/c20-specparse", e))?;
        if min_depth(&node, &md) == usize::MAX {
            continue;
        }
        let v = vgen::gen_value_cfg(c, &node, &env, &md, &vcfg);
        let lv = to_lib(&node, &v, &env);
        let pa = perm_a.iter().position(|x| *x == i).unwrap();
        let pb = perm_b.iter().position(|x| *x == i).unwrap();
        let w = GenericDatumWriter::builder(&set_a[pa]).schemata(set_a.iter().collect()).and_then(|b| b.build()).map_err(|e| Fail::new(format!("C20/writer-build/{class}"), format!("{e}")).with(sdetail(info, vec![])))?;
        let bytes = w.write_value_to_vec(lv.clone()).map_err(|e| Fail::new(format!("C20/encode/{class}"), format!("member {i}: {e}")).with(sdetail(info, vec![])))?;
        let r = GenericDatumReader::builder(&set_b[pb]).writer_schemata(set_b.iter().collect()).and_then(|b| b.build()).map_err(|e| Fail::new(format!("C20/reader-build/{class}"), format!("{e}")).with(sdetail(info, vec![])))?;
        let mut s: &[u8] = &bytes;
        let got = r.read_value(&mut s).map_err(|e| Fail::new(format!("C20/cross-order-decode/{class}"), format!("member {i} encoded with order {perm_a:?}, decoded with {perm_b:?}: {e}")).with(sdetail(info, vec![])))?;
        let same = from_lib(&node, &got, &env).map(|g| g.sem_eq(&v)).unwrap_or(false);
        if !same || !s.is_empty() {
            return Err(Fail::new(format!("C20/cross-order-value/{class}"), format!("member {i}: value differs across orderings")).with(sdetail(info, vec![])));
        }
    }
    Ok(())
}

fn reps() -> usize {
    if std::env::var("VERIF_TIER").map(|t| t == "thorough").unwrap_or(false) { 24 } else { 6 }
}

pub fn case_set(c: &mut Choices, log: &mut CaseLog) -> CaseResult {
    let info = gen_set(c, &GenCfg { logical_members: true, allow_nested_sibling_ref: false, allow_nested_duplicate: false, allow_bad: true });
    log.label("set");
    log.label(&format!("members:{}", info.texts.len()));
    if info.dangling || info.top_duplicate {
        log.label("unparsable_by_construction");
    }
    log.nontrivial = info.texts.len() >= 2 && info.cross_refs >= 1;
    if log.nontrivial {
        log.label("cross_refs");
    }
    log.hash = fnv(info.texts.join("|").as_bytes());
    log.sample = Some(sdetail(&info, vec![]));
    check_set(&info, reps(), c, log)
}

/// The two known-finding classes, generated on purpose.
pub fn case_known_classes(c: &mut Choices, log: &mut CaseLog) -> CaseResult {
    let dup = c.bool();
    let info = gen_set(c, &GenCfg { logical_members: true, allow_nested_sibling_ref: !dup, allow_nested_duplicate: dup, allow_bad: false });
    log.label("set");
    log.nontrivial = info.nested_sibling_ref || info.nested_duplicate;
    log.hash = fnv(info.texts.join("|").as_bytes());
    check_set(&info, reps() * 3, c, log)
}

pub fn dispatch(campaign: &str, c: &mut Choices, log: &mut CaseLog) -> Option<CaseResult> {
    match campaign {
        "sets" => Some(case_set(c, log)),
        "known_classes" => Some(case_known_classes(c, log)),
        _ => None,
    }
}

pub fn run(mut chk: Check) -> ! {
    chk.rule = "generated sets of 1-5 named schemas (records/enums/fixed in 4 namespaces; fields referencing members by full or simple name, directly / in arrays / maps / nullable unions, so chains, diamonds and cycles occur; nested definitions; optionally a dangling reference or the same full name as two inputs) x ALL permutations of the input list (every 5th for 5 members) x 6 (quick) / 24 (thorough) repetitions each (fresh hash seed per call). \
        Oracle: outcome equals the reference predicate (all references resolvable within the set and no full name defined twice) for every run; the schema obtained for input i is the same (complete dump) under every ordering and repetition; parse_str_with_list agrees; the outputs resolve together; a value encoded with the schema from one ordering decodes to the same value with the schema from another. \
        known_classes: sets with a nested definition referenced from a sibling input, or the same nested name in two inputs (known findings), with 3x the repetitions. Non-trivial: >=2 members with a cross-member reference. Distinct by hash of the set."
        .into();
    chk.assumptions = vec!["the reference predicate is computed from the texts by the harness's own schema reader".into(), "the nested-definition-referenced-by-sibling defect depends on the per-call hash seed; its class is excluded from the main campaign by construction so that the verdict of this check is deterministic".into()];
    chk.replay_files(dispatch);
    let n = chk.scale(8000, 60_000);
    chk.campaign(CampaignCfg::new("sets", n).len(0, 300), case_set);
    chk.campaign(CampaignCfg::new("known_classes", n / 5).len(0, 300), case_known_classes);
    chk.require_label("sets:cross_refs", "sets:set", 30.0);
    chk.finish()
}
