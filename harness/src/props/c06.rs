//! C06 — whatever decodes successfully conforms to the schema.

use super::common::*;
use crate::choices::{fnv, Choices};
use crate::dynserde;
use crate::json::Js;
use crate::refbin;
use crate::runner::*;
use crate::sgen::SgenCfg;
use crate::spec::*;
use crate::tolib::{from_lib, short};
use crate::vgen;
use apache_avro::error::Details;
use apache_avro::reader::datum::GenericDatumReader;
use apache_avro::writer::datum::GenericDatumWriter;

pub const LIMIT: usize = 1 << 20;

#[derive(Clone, Copy, PartialEq, Debug)]
pub enum Kind {
    Pristine,
    Prefix,
    Mutation,
    Random,
}

/// The oracle for one byte string. `strict_uuid=false`: DynDe accepts whatever the
/// uuid crate parses, like the generic decoder (agreement is about datum
/// completeness, not about the text form).
pub fn check_input(sub: &Subject, reader: &GenericDatumReader, writer: &GenericDatumWriter, input: &[u8], kind: Kind, log: &mut CaseLog) -> CaseResult {
    log.sub_evals += 1;
    let mut slice: &[u8] = input;
    let g = match guard(|| reader.read_value(&mut slice)) {
        Ok(r) => r,
        Err(_) => {
            log.label("panic(left to C05)");
            return Ok(());
        }
    };
    let g_used = input.len() - slice.len();
    let bytes_detail = |extra: Vec<(&str, Js)>| {
        let mut items = vec![("schema", Js::Str(sub.text.clone())), ("input", bytes_js(input)), ("input_kind", Js::Str(format!("{kind:?}")))];
        items.extend(extra);
        Js::obj(items)
    };
    let mut g_limit = false;
    match &g {
        Ok(val) => {
            if kind != Kind::Pristine {
                log.label("ok_on_nonpristine");
                log.sub_nontrivial.push(fnv(&[sub.text.as_bytes(), input].concat()));
            }
            let conv = from_lib(&sub.node, val, &sub.env);
            if kind == Kind::Prefix {
                // prefix-freeness: a strict prefix of a complete datum is never a complete datum
                let why = match &conv {
                    Err(m) => nonconf_kind(m),
                    Ok(_) => "conforming".to_string(),
                };
                return Err(Fail::new(
                    format!("C06/truncated-accepted/{why}"),
                    format!("a strict prefix ({} of the datum's bytes) decoded to a value: {}", input.len(), short(val)),
                )
                .with(bytes_detail(vec![("got", Js::Str(short(val)))])));
            }
            let v = match conv {
                Ok(v) => v,
                Err(m) => {
                    return Err(Fail::new(format!("C06/nonconforming/{}", nonconf_kind(&m)), m).with(bytes_detail(vec![("got", Js::Str(short(val)))])));
                }
            };
            let valid = guard(|| val.validate(&sub.schema)).map_err(|p| panic_fail(&p))?;
            if !valid {
                return Err(Fail::new(format!("C06/not-validating/{}", first_kind(&sub.node)), "decoded value does not validate against its schema")
                    .with(bytes_detail(vec![("got", Js::Str(short(val)))])));
            }
            let mut re = vec![];
            if let Err(e) = writer.write_value_ref(&mut re, val) {
                return Err(Fail::new(format!("C06/reencode-error/{}", first_kind(&sub.node)), format!("re-encoding the decoded value failed: {e}"))
                    .with(bytes_detail(vec![("got", Js::Str(short(val)))])));
            }
            let mut rs: &[u8] = &re;
            match reader.read_value(&mut rs) {
                Ok(val2) => {
                    let same = from_lib(&sub.node, &val2, &sub.env).map(|v2| v2.sem_eq(&v)).unwrap_or(false);
                    if !same || !rs.is_empty() {
                        return Err(Fail::new("C06/reencode-mismatch", "decode(encode(decoded)) differs").with(bytes_detail(vec![
                            ("got", Js::Str(short(val))),
                            ("reencoded", bytes_js(&re)),
                            ("second", Js::Str(short(&val2))),
                        ])));
                    }
                }
                Err(e) => {
                    return Err(Fail::new("C06/reencode-undecodable", format!("{e}")).with(bytes_detail(vec![("got", Js::Str(short(val))), ("reencoded", bytes_js(&re))])));
                }
            }
        }
        Err(e) => {
            if matches!(e.details(), Details::MemoryAllocation { .. }) {
                g_limit = true;
            }
            if kind == Kind::Pristine {
                return Err(Fail::new("C06/pristine-rejected", format!("{e}")).with(bytes_detail(vec![])));
            }
        }
    }
    // agreement with the schema-aware deserializer
    let budget = 16 * input.len() as u64 + 100_000;
    dynserde::reset_work(budget);
    let mut slice: &[u8] = input;
    // half of the inputs read two-branch nullable unions through deserialize_option, the others
    // through deserialize_enum (a function of the input, so that replays keep their meaning)
    let option_style = crate::choices::fnv(input) % 2 == 0;
    let d = match guard(|| dynserde::with_ctx(&sub.node, &sub.env, option_style, || reader.read_deser::<dynserde::DynOutLenient>(&mut slice))) {
        Ok(r) => r,
        Err(_) => {
            log.label("panic(left to C05)");
            return Ok(());
        }
    };
    let d_used = input.len() - slice.len();
    let d_limit = dynserde::work() > budget || matches!(&d, Err(e) if matches!(e.details(), Details::MemoryAllocation { .. }));
    if g_limit || d_limit {
        log.label("limit_skip");
        return Ok(());
    }
    // the big-decimal frame (length, unscaled bytes, scale) is parsed by the harness's own visitor,
    // which is stricter than the library about over-long varints: its refusal is not the library's
    if matches!(&d, Err(e) if format!("{e}").contains("big-decimal framing")) {
        log.label("harness_frame_parser_skip");
        return Ok(());
    }
    match (&g, &d) {
        (Ok(val), Err(e)) => Err(Fail::new(
            format!("C06/decoders-disagree/generic-ok-deser-err/{}", first_kind(&sub.node)),
            format!("generic decoder: Ok({}), schema-aware deserializer: Err({e})", short(val)),
        )
        .with(bytes_detail(vec![]))),
        (Err(e), Ok(v)) => Err(Fail::new(
            format!("C06/decoders-disagree/generic-err-deser-ok/{}", classify_err(e)),
            format!("generic decoder: Err({e}), schema-aware deserializer: Ok({})", v.0.to_js().render()),
        )
        .with(bytes_detail(vec![]))),
        (Ok(val), Ok(v)) => {
            if g_used != d_used {
                return Err(Fail::new("C06/decoders-disagree/consumption", format!("generic consumed {g_used}, deserializer {d_used}")).with(bytes_detail(vec![])));
            }
            let same = from_lib(&sub.node, val, &sub.env).map(|gv| gv.sem_eq(&v.0)).unwrap_or(true);
            if !same {
                return Err(Fail::new("C06/decoders-disagree/value", format!("generic: {}, deserializer: {}", short(val), v.0.to_js().render())).with(bytes_detail(vec![])));
            }
            Ok(())
        }
        (Err(_), Err(_)) => Ok(()),
    }
}

fn classify_err(e: &apache_avro::Error) -> String {
    let s = format!("{:?}", e.details());
    s.split(|c: char| !c.is_alphanumeric()).next().unwrap_or("?").to_string()
}

fn nonconf_kind(msg: &str) -> String {
    // "value X does not conform to KIND"
    match msg.rfind("does not conform to ") {
        Some(i) => msg[i + 20..].to_string(),
        None => msg.split_whitespace().next().unwrap_or("?").to_string(),
    }
}

fn first_kind(n: &SNode) -> String {
    n.lkind()
}

pub fn mutate(c: &mut Choices, enc: &[u8]) -> Vec<u8> {
    let mut m = enc.to_vec();
    if m.is_empty() {
        m.push(c.pick(256) as u8);
        return m;
    }
    let k = 1 + c.pick(2);
    for _ in 0..k {
        let pos = c.pick(m.len());
        match c.pick(8) {
            0 => m[pos] = 0,
            1 => m[pos] = 0xff,
            2 => m[pos] = 0x80,
            3 => m[pos] = m[pos].wrapping_add(1),
            4 => m[pos] = m[pos].wrapping_sub(1),
            5 => m[pos] ^= 1 << c.pick(8),
            6 => {
                m.insert(pos, c.pick(256) as u8);
            }
            _ => m[pos] = c.pick(256) as u8,
        }
    }
    m
}

pub fn case_decode(c: &mut Choices, log: &mut CaseLog) -> CaseResult {
    let Some(sub) = gen_subject(c, &SgenCfg::full(), log)? else {
        return Ok(());
    };
    let md = min_depths(&sub.env);
    let mut vcfg = vgen::VgenCfg::small();
    vcfg.long_strings = false;
    let v = vgen::gen_value_cfg(c, &sub.node, &sub.env, &md, &vcfg);
    let enc = refbin::encode_canonical(&sub.node, &v, &sub.env);
    let reader = GenericDatumReader::builder(&sub.schema).build().map_err(|e| Fail::new("C06/reader-build", format!("{e}")))?;
    let writer = GenericDatumWriter::builder(&sub.schema).build().map_err(|e| Fail::new("C06/writer-build", format!("{e}")))?;
    log.label("case");
    log.sample = Some(Js::obj(vec![("schema", Js::Str(sub.text.clone())), ("pristine", bytes_js(&enc)), ("inputs", Js::str("pristine, every strict prefix, 8 mutations, 2 random strings"))]));
    check_input(&sub, &reader, &writer, &enc, Kind::Pristine, log)?;
    // every strict prefix (sampled above 400 bytes)
    if enc.len() <= 400 {
        for cut in 0..enc.len() {
            check_input(&sub, &reader, &writer, &enc[..cut], Kind::Prefix, log)?;
        }
    } else {
        for _ in 0..200 {
            let cut = c.pick(enc.len());
            check_input(&sub, &reader, &writer, &enc[..cut], Kind::Prefix, log)?;
        }
    }
    if enc.len() >= 2 {
        log.label("has_prefixes");
        log.sub_nontrivial.push(fnv(&[sub.text.as_bytes(), b"|P|", &enc].concat()));
    }
    for _ in 0..8 {
        let m = mutate(c, &enc);
        if m == enc {
            continue;
        }
        // a mutation may be a strict prefix-extension etc.; only exact prefixes get the prefix oracle
        check_input(&sub, &reader, &writer, &m, Kind::Mutation, log)?;
    }
    for _ in 0..2 {
        let n = c.pick(24);
        let r = c.bytes(n);
        if r == enc {
            continue;
        }
        let kind = if enc.starts_with(&r) && r.len() < enc.len() { Kind::Prefix } else { Kind::Random };
        check_input(&sub, &reader, &writer, &r, kind, log)?;
    }
    Ok(())
}

/// Small schemas covering every decoder arm, for the exhaustive part.
pub fn small_schemas() -> Vec<&'static str> {
    vec![
        r#""null""#,
        r#""boolean""#,
        r#""int""#,
        r#""long""#,
        r#""float""#,
        r#""double""#,
        r#""bytes""#,
        r#""string""#,
        r#"{"type":"array","items":"int"}"#,
        r#"{"type":"array","items":"null"}"#,
        r#"{"type":"map","values":"boolean"}"#,
        r#"["null","int"]"#,
        r#"["int","null","string"]"#,
        r#"{"type":"enum","name":"E","symbols":["A","B","C"]}"#,
        r#"{"type":"fixed","name":"F","size":2}"#,
        r#"{"type":"fixed","name":"F0","size":0}"#,
        r#"{"type":"record","name":"R","fields":[{"name":"a","type":"boolean"},{"name":"b","type":"string"}]}"#,
        r#"{"type":"record","name":"R2","fields":[{"name":"a","type":["null","R2"]}]}"#,
        r#"{"type":"int","logicalType":"date"}"#,
        r#"{"type":"long","logicalType":"timestamp-micros"}"#,
        r#"{"type":"bytes","logicalType":"decimal","precision":4,"scale":1}"#,
        r#"{"type":"fixed","name":"D","size":1,"logicalType":"decimal","precision":2,"scale":0}"#,
        r#"{"type":"bytes","logicalType":"big-decimal"}"#,
        r#"{"type":"string","logicalType":"uuid"}"#,
        r#"{"type":"record","name":"R3","fields":[{"name":"a","type":{"type":"array","items":"boolean"}},{"name":"b","type":"boolean"}]}"#,
    ]
}

pub fn dispatch(campaign: &str, c: &mut Choices, log: &mut CaseLog) -> Option<CaseResult> {
    match campaign {
        "decode" => Some(case_decode(c, log)),
        "exhaustive" => Some(case_exhaustive(c, log)),
        "fuzz_datum_c06" => Some(crate::fuzzglue::case_datum_c06(c, log)),
        _ => None,
    }
}

/// choices: [schema index, length(0..=2), b0, b1]
pub fn case_exhaustive(c: &mut Choices, log: &mut CaseLog) -> CaseResult {
    let schemas = small_schemas();
    let si = c.raw() as usize % schemas.len();
    let len = (c.raw() % 3) as usize;
    let b0 = c.raw() as u8;
    let b1 = c.raw() as u8;
    let input: Vec<u8> = [b0, b1][..len].to_vec();
    let sub = crate::specparse::subject_from_text(schemas[si]).map_err(|e| Fail::new("HARNESS/small-schema", e))?;
    let reader = GenericDatumReader::builder(&sub.schema).build().map_err(|e| Fail::new("C06/reader-build", format!("{e}")))?;
    let writer = GenericDatumWriter::builder(&sub.schema).build().map_err(|e| Fail::new("C06/writer-build", format!("{e}")))?;
    // is the input a strict prefix of some valid datum? decide with the reference decoder:
    // Eof from the strict reference decoder on bytes that are valid so far means "prefix of something";
    // that alone does not make Ok wrong only if the reference also says complete; so: kind = Prefix iff reference says Eof.
    let kind = match refbin::decode_any_sizes(&sub.node, &sub.env, &input) {
        Err(refbin::DecErr::Eof) => Kind::Prefix,
        _ => Kind::Random,
    };
    log.label("case");
    check_input(&sub, &reader, &writer, &input, kind, log)
}

pub fn run(mut chk: Check) -> ! {
    if let Err(e) = refbin::self_test() {
        infra(&format!("refbin self-test failed: {e}"));
    }
    let lim = apache_avro::util::max_allocation_bytes(LIMIT);
    if lim != LIMIT {
        infra("could not set the allocation limit first");
    }
    chk.rule = "per generated (schema,value): the pristine encoding, EVERY strict prefix, 8 byte-level mutations, 2 random strings; plus all byte strings of length <=2 against 25 small schemas. \
        Oracle on Ok: strict conformance, validate(), re-encode, decode again equal; strict prefix => must be Err (prefix-freeness); generic decoder and schema-aware deserializer agree (Ok/Err, bytes consumed, value). \
        Non-trivial (distinct by hash of schema+input): a non-pristine input that decoded Ok, or a datum of >=2 bytes whose prefixes were all enumerated."
        .into();
    chk.assumptions = vec![
        "allocation limit set to 1 MiB for this process; inputs on which either decoder stops because of that limit are excluded from the agreement oracle (counted as limit_skip)".into(),
        "for the agreement oracle the dynamic deserializer accepts any uuid text the uuid crate parses and ignores trailing bytes inside a big-decimal frame, exactly like the generic decoder; panics are C05's business and only labelled here".into(),
    ];
    chk.replay_files(dispatch);
    // exhaustive: all strings of length <= 2 x small schemas
    if chk.replay_only.is_none() {
        let ns = small_schemas().len() as u64;
        let mut inputs: Vec<Vec<u64>> = vec![];
        for si in 0..ns {
            inputs.push(vec![si, 0, 0, 0]);
            for b0 in 0..256u64 {
                inputs.push(vec![si, 1, b0, 0]);
            }
            let step = if chk.thorough() { 1 } else { 5 };
            for b0 in 0..256u64 {
                let mut b1 = (b0 % step) as u64;
                while b1 < 256 {
                    inputs.push(vec![si, 2, b0, b1]);
                    b1 += step;
                }
            }
        }
        chk.explicit("exhaustive", &inputs, case_exhaustive);
    }
    let n = chk.scale(80_000, 800_000);
    chk.campaign(CampaignCfg::new("decode", n), case_decode);
    chk.fuzz_stage("c06_datum", "fuzz_datum_c06", 80_000, 512, &crate::fuzzglue::seeds_datum(), crate::fuzzglue::case_datum_c06);
    chk.finish()
}
