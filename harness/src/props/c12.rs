//! C12 — Parsing Canonical Form and fingerprints.

use crate::choices::{fnv, Choices};
use crate::json::{self, Js};
use crate::refcodec;
use crate::refpcf;
use crate::respell;
use crate::runner::*;
use crate::sgen::{gen_schema, SgenCfg};
use crate::spec::*;
use apache_avro::rabin::Rabin;
use apache_avro::Schema;
use digest::Digest;
use md5::Md5;
use sha2::Sha256;

/// Decorated schemas without the three known-finding classes (logical types, decimal
/// precision/scale, `order`), which are probed separately.
pub fn cfg() -> SgenCfg {
    SgenCfg { logical: false, field_order: false, same_simple_names: true, ..SgenCfg::decorated() }
}

fn has_nested_named_or_ns(n: &SNode) -> bool {
    let env = env_of(n);
    env.len() >= 2 || env.keys().any(|k| k.contains('.'))
}

/// All PCF oracles for one schema text. Returns the library's canonical form.
fn check_text(text: &str, what: &str) -> Result<String, Fail> {
    let det = |extra: Vec<(&str, Js)>| {
        let mut items = vec![("schema_text", Js::str(text)), ("variant", Js::str(what))];
        items.extend(extra);
        Js::obj(items)
    };
    let js = json::parse_strict(text).map_err(|e| Fail::new("HARNESS/variant-json", format!("{e:?}: {text}")))?;
    let want = refpcf::canonical(&js).map_err(|e| Fail::new("HARNESS/refpcf", format!("{e}: {text}")))?;
    let schema = Schema::parse_str(text).map_err(|e| Fail::new("C12/variant-rejected", format!("{what}: {e}")).with(det(vec![])))?;
    let cf = guard(|| schema.canonical_form()).map_err(|p| Fail::new(format!("C12/panic/{}", p.key_loc()), p.msg.clone()).with(det(vec![])))?;
    if cf != want {
        // is the difference exactly one of the library's known deviations?
        let mut key = "canonical-form-differs".to_string();
        for (dev, k) in [
            (refpcf::Dev { logical: true, order: false }, "known-deviation/logical"),
            (refpcf::Dev { logical: false, order: true }, "known-deviation/order"),
            (refpcf::Dev { logical: true, order: true }, "known-deviation/logical+order"),
        ] {
            if refpcf::canonical_dev(&js, dev).ok().as_deref() == Some(cf.as_str()) {
                key = match k {
                    "known-deviation/order" => "order-kept".to_string(),
                    "known-deviation/logical" => classify_diff(&js),
                    _ => format!("{}+order-kept", classify_diff(&js)),
                };
                break;
            }
        }
        return Err(Fail::new(format!("C12/{key}"), format!("canonical_form() = {cf} but the specification's rules give {want}")).with(det(vec![])));
    }
    // idempotence
    let again = Schema::parse_str(&cf).map_err(|e| Fail::new("C12/canonical-form-unparsable", format!("{e}")).with(det(vec![("canonical", Js::str(&cf))])))?;
    let cf2 = again.canonical_form();
    if cf2 != cf {
        return Err(Fail::new("C12/not-idempotent", format!("canonical_form(parse(c)) = {cf2} for c = {cf}")).with(det(vec![])));
    }
    // fingerprints
    let crc = refpcf::crc64_avro(want.as_bytes());
    let rabin = schema.fingerprint::<Rabin>();
    if rabin.bytes != crc.to_le_bytes() {
        return Err(Fail::new("C12/rabin", format!("Rabin fingerprint {} but little-endian CRC-64-AVRO of the canonical form is {}", json::hex(&rabin.bytes), json::hex(&crc.to_le_bytes()))).with(det(vec![])));
    }
    let md5 = schema.fingerprint::<Md5>();
    let want_md5 = Md5::digest(want.as_bytes()).to_vec();
    if md5.bytes != want_md5 {
        return Err(Fail::new("C12/md5", format!("{} vs {}", json::hex(&md5.bytes), json::hex(&want_md5))).with(det(vec![])));
    }
    let sha = schema.fingerprint::<Sha256>();
    let want_sha = Sha256::digest(want.as_bytes()).to_vec();
    if sha.bytes != want_sha {
        return Err(Fail::new("C12/sha256", format!("{} vs {}", json::hex(&sha.bytes), json::hex(&want_sha))).with(det(vec![])));
    }
    // determinism within the process
    if schema.canonical_form() != cf || schema.fingerprint::<Rabin>().bytes != rabin.bytes {
        return Err(Fail::new("C12/nondeterministic", "second call differs").with(det(vec![])));
    }
    Ok(cf)
}

/// Root-cause class of a PCF disagreement, from the schema's JSON.
fn classify_diff(js: &Js) -> String {
    fn find(js: &Js, key: &str) -> bool {
        match js {
            Js::Obj(o) => o.iter().any(|(k, v)| k == key || find(v, key)),
            Js::Arr(a) => a.iter().any(|v| find(v, key)),
            _ => false,
        }
    }
    fn find_decimal(js: &Js) -> bool {
        match js {
            Js::Obj(o) => o.iter().any(|(k, v)| (k == "logicalType" && v.as_str() == Some("decimal")) || find_decimal(v)),
            Js::Arr(a) => a.iter().any(find_decimal),
            _ => false,
        }
    }
    let _ = find;
    if find_decimal(js) { "decimal-precision-scale-kept".into() } else { "logical-type-not-reduced".into() }
}

pub fn case_pcf(c: &mut Choices, log: &mut CaseLog) -> CaseResult {
    case_pcf_cfg(c, log, &cfg())
}

/// Same oracles over the full grammar (logical types, `order`): disagreements that are exactly
/// the known deviations are attributed to their known-finding keys, anything else is a violation.
pub fn case_pcf_full(c: &mut Choices, log: &mut CaseLog) -> CaseResult {
    case_pcf_cfg(c, log, &SgenCfg::decorated())
}

fn case_pcf_cfg(c: &mut Choices, log: &mut CaseLog, cfg: &SgenCfg) -> CaseResult {
    let node = gen_schema(c, cfg);
    let text0 = render_text(&node);
    if Schema::parse_str(&text0).is_err() {
        log.label("schema_rejected");
        return Ok(());
    }
    log.label("case");
    let cf0 = check_text(&text0, "as generated")?;
    let mut edits = 0;
    // variant 1: decorations stripped
    let stripped = respell::strip_decorations(&node);
    if stripped != node {
        edits += 1;
    }
    let cf1 = check_text(&render_text(&stripped), "decorations stripped")?;
    // variant 2: namespace / wrapping / reference re-spelling, shuffled keys, whitespace
    let (resp, n) = respell::respell(&node, c);
    edits += n;
    let js2 = respell::shuffle_keys(&render(&resp, ""), c);
    let text2 = respell::render_with_whitespace(&js2, c);
    edits += 2;
    let cf2 = check_text(&text2, "re-spelled, keys shuffled, whitespace")?;
    if cf0 != cf1 || cf0 != cf2 {
        return Err(Fail::new("C12/irrelevant-edit-changes-form", format!("{cf0} / {cf1} / {cf2}")).with(Js::obj(vec![("schema_text", Js::Str(text0.clone())), ("variant_text", Js::Str(text2))])));
    }
    log.sub_evals += 2;
    log.nontrivial = has_nested_named_or_ns(&node) && edits >= 2;
    if log.nontrivial {
        log.label("nested_or_namespaced");
    }
    log.hash = fnv(text0.as_bytes());
    log.sample = Some(Js::obj(vec![("schema_text", Js::Str(text0)), ("respelled", Js::Str(text2)), ("canonical_form", Js::Str(cf0))]));
    Ok(())
}

pub fn case_hash(c: &mut Choices, log: &mut CaseLog) -> CaseResult {
    let len = match c.weighted(&[1, 3, 3, 1]) {
        0 => 0,
        1 => 1 + c.pick(8),
        2 => 9 + c.pick(200),
        _ => 1000 + c.pick(3000),
    };
    let data = c.bytes(len);
    let nsplit = c.pick(4);
    let mut cuts: Vec<usize> = (0..nsplit).map(|_| c.pick(len + 1)).collect();
    cuts.sort();
    let mut h = Rabin::default();
    let mut prev = 0;
    for cut in &cuts {
        Digest::update(&mut h, &data[prev..*cut]);
        prev = *cut;
    }
    Digest::update(&mut h, &data[prev..]);
    let got = h.finalize().to_vec();
    let want = refpcf::crc64_avro(&data).to_le_bytes();
    log.label("case");
    log.nontrivial = len >= 9 && nsplit > 0;
    log.hash = fnv(&data) ^ fnv(format!("{cuts:?}").as_bytes());
    if log.nontrivial {
        log.sample = Some(Js::obj(vec![("bytes", Js::Str(json::hex(&data[..data.len().min(64)]))), ("len", Js::int(len as i128)), ("splits", Js::Str(format!("{cuts:?}")))]));
    }
    if got != want {
        return Err(Fail::new("C12/rabin-bytes", format!("Rabin over {len} bytes split at {cuts:?}: {} vs bitwise CRC-64-AVRO {}", json::hex(&got), json::hex(&want)))
            .with(Js::obj(vec![("bytes", Js::Str(json::hex(&data))), ("splits", Js::Str(format!("{cuts:?}")))])));
    }
    Ok(())
}

/// Known-finding probes and fixed vectors: choices = [index]
const PROBES: &[&str] = &[
    r#"{"type":"int","logicalType":"date"}"#,
    r#"{"type":"long","logicalType":"timestamp-micros"}"#,
    r#"{"type":"string","logicalType":"uuid"}"#,
    r#"{"type":"record","name":"R","fields":[{"name":"d","type":{"type":"int","logicalType":"time-millis"}}]}"#,
    r#"{"type":"bytes","logicalType":"decimal","precision":9,"scale":2}"#,
    r#"{"type":"fixed","name":"D","size":8,"logicalType":"decimal","precision":9,"scale":2}"#,
    r#"{"type":"record","name":"R","fields":[{"name":"a","type":"int","order":"descending"}]}"#,
    r#"{"type":"fixed","name":"dur","size":12,"logicalType":"duration"}"#,
    r#"{"type":"bytes","logicalType":"big-decimal"}"#,
    r#""null""#, r#""boolean""#, r#""int""#, r#""long""#, r#""float""#, r#""double""#, r#""bytes""#, r#""string""#,
    r#"{"type":"fixed","name":"foo","size":15}"#,
    r#"{"type":"enum","name":"foo","symbols":["A1"],"default":"A1","doc":"x"}"#,
    r#"{"type":"record","name":"foo","namespace":"x.y","fields":[{"name":"f1","type":"boolean","default":true,"doc":"d"},{"name":"f2","type":{"type":"array","items":"x.y.foo"}}]}"#,
];

pub fn case_probe(c: &mut Choices, log: &mut CaseLog) -> CaseResult {
    let i = c.raw() as usize % PROBES.len();
    log.label("probe");
    log.nontrivial = true;
    log.hash = fnv(PROBES[i].as_bytes());
    check_text(PROBES[i], "probe").map(|_| ())
}

pub fn dispatch(campaign: &str, c: &mut Choices, log: &mut CaseLog) -> Option<CaseResult> {
    match campaign {
        "pcf" => Some(case_pcf(c, log)),
        "pcf_full" => Some(case_pcf_full(c, log)),
        "hash" => Some(case_hash(c, log)),
        "probe" => Some(case_probe(c, log)),
        _ => None,
    }
}

pub fn run(mut chk: Check) -> ! {
    if let Err(e) = refpcf::self_test() {
        infra(&format!("refpcf self-test failed: {e}"));
    }
    // MD5 / SHA-256 crates cross-checked against Python hashlib
    for sample in [&b""[..], b"abc", b"{\"name\":\"x.y.R\",\"type\":\"record\",\"fields\":[]}"] {
        match (refcodec::py("md5", sample), refcodec::py("sha256", sample)) {
            (Ok(m), Ok(s)) => {
                if m != Md5::digest(sample).to_vec() || s != Sha256::digest(sample).to_vec() {
                    infra("md-5/sha2 crates disagree with Python hashlib");
                }
            }
            (Err(e), _) | (_, Err(e)) => infra(&format!("python helper: {e}")),
        }
    }
    chk.rule = "pcf: generated decorated schema text (docs, aliases, defaults, custom attributes, namespaces in every spelling, references; without logical types and `order`, whose deviations are known findings probed separately) and two irrelevant-edit variants (decorations stripped; namespace/wrapping/reference re-spelling + shuffled keys + whitespace): \
        canonical_form == reference PCF computed from the JSON text, equal across variants, idempotent; Rabin == LE CRC-64-AVRO (bitwise), MD5/SHA-256 == digests of the same bytes. hash: arbitrary bytes fed to Rabin in arbitrary pieces == bitwise reference. \
        Non-trivial: schema with >=2 named types or a namespace and >=2 edits; hash inputs >= 9 bytes with a split. Distinct by hash of the text / bytes."
        .into();
    chk.assumptions = vec!["refpcf implements the seven PCF rules (self-test: published vectors for \"int\" and fixed foo/15, a hand-derived example)".into(), "md-5/sha2 crates cross-checked against Python hashlib at start-up".into()];
    chk.replay_files(dispatch);
    if chk.replay_only.is_none() {
        let inputs: Vec<Vec<u64>> = (0..PROBES.len() as u64).map(|i| vec![i]).collect();
        chk.explicit("probe", &inputs, case_probe);
    }
    let n = chk.scale(200_000, 1_500_000);
    chk.campaign(CampaignCfg::new("pcf", n), case_pcf);
    chk.campaign(CampaignCfg::new("pcf_full", n / 2), case_pcf_full);
    chk.campaign(CampaignCfg::new("hash", n).len(0, 700), case_hash);
    chk.require_label("pcf:nested_or_namespaced", "pcf:case", 20.0);
    chk.finish()
}
