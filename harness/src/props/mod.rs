pub mod c01;
pub mod c02;
pub mod c03;
pub mod c04;
pub mod c06;
pub mod c13;
pub mod c14;
pub mod common;
