//! C04 — container layout, both directions (differential against refocf + reference codecs).

use super::c03::{read_back, schema_cfg};
use super::common::*;
use crate::choices::{fnv, Choices};
use crate::json::Js;
use crate::refbin::{self, Layout, LayoutStats};
use crate::refcodec;
use crate::refocf;
use crate::runner::*;
use crate::spec::*;
use crate::specparse;
use crate::tolib::{from_lib, short, to_lib};
use crate::vgen;
use apache_avro::types::Value;
use apache_avro::{Codec, Writer};
use std::collections::{BTreeMap, HashMap};

/// Decompress a stored payload with a codec implementation that is not the library's.
/// zstandard has no independent implementation here: the library's own codec is used and labelled.
pub fn ref_decompress(kind: &str, stored: &[u8]) -> Result<Vec<u8>, String> {
    match kind {
        "null" => Ok(stored.to_vec()),
        "deflate" => {
            let (out, used) = refcodec::inflate(stored, 1 << 28)?;
            if used != stored.len() {
                return Err(format!("raw deflate stream ends at {used} of {} bytes", stored.len()));
            }
            Ok(out)
        }
        "snappy" => {
            if stored.len() < 4 {
                return Err("snappy payload shorter than its CRC".into());
            }
            let (body, crc) = stored.split_at(stored.len() - 4);
            let out = refcodec::snappy_decode(body, 1 << 28)?;
            if refcodec::crc32(&out).to_be_bytes() != crc {
                return Err("snappy trailer is not the big-endian CRC-32 of the uncompressed data".into());
            }
            Ok(out)
        }
        "bzip2" => refcodec::py("bz2_d", stored),
        "xz" => refcodec::py("xz_d", stored),
        "zstandard" => {
            let mut v = stored.to_vec();
            Codec::Zstandard(Default::default()).decompress(&mut v).map_err(|e| format!("{e}"))?;
            Ok(v)
        }
        other => Err(format!("HARNESS: unknown codec {other}")),
    }
}

/// Compress with a reference compressor (variant chosen from the choice source).
pub fn ref_compress(kind: &str, data: &[u8], c: &mut Choices) -> Result<Vec<u8>, String> {
    match kind {
        "null" => Ok(data.to_vec()),
        "deflate" => match c.pick(3) {
            0 => Ok(refcodec::deflate_stored(data)),
            1 => Ok(refcodec::deflate_fixed_literals(data)),
            _ => refcodec::py(&format!("deflate_c{}", c.pick(10)), data),
        },
        "snappy" => Ok(refcodec::avro_snappy_frame(data)),
        "bzip2" => refcodec::py(&format!("bz2_c{}", 1 + c.pick(9)), data),
        "xz" => refcodec::py(&format!("xz_c{}", c.pick(7)), data),
        "zstandard" => {
            let mut v = data.to_vec();
            Codec::Zstandard(Default::default()).compress(&mut v).map_err(|e| format!("{e}"))?;
            Ok(v)
        }
        other => Err(format!("HARNESS: unknown codec {other}")),
    }
}

fn harness_err(e: String) -> Fail {
    if e.starts_with("HARNESS") { Fail::new("HARNESS/refcodec", e) } else { Fail::new("C04/reference-compressor", e) }
}

/// Structural equality ignoring spelling (namespace style, wrapping) and decorations.
pub fn canon_eq(a: &SNode, b: &SNode) -> bool {
    if a.logical != b.logical {
        return false;
    }
    match (&a.ty, &b.ty) {
        (SType::Array(x), SType::Array(y)) | (SType::Map(x), SType::Map(y)) => canon_eq(x, y),
        (SType::Union(x), SType::Union(y)) => x.len() == y.len() && x.iter().zip(y).all(|(p, q)| canon_eq(p, q)),
        (SType::Record(n, f), SType::Record(m, g)) => {
            n.fullname() == m.fullname() && f.len() == g.len() && f.iter().zip(g).all(|(p, q)| p.name == q.name && canon_eq(&p.node, &q.node))
        }
        (SType::Enum(n, s, _), SType::Enum(m, t, _)) => n.fullname() == m.fullname() && s == t,
        (SType::Fixed(n, s), SType::Fixed(m, t)) => n.fullname() == m.fullname() && s == t,
        (SType::Ref(x), SType::Ref(y)) => x == y,
        (x, y) => std::mem::discriminant(x) == std::mem::discriminant(y) && !matches!(x, SType::Array(_) | SType::Map(_) | SType::Union(_) | SType::Record(..) | SType::Enum(..) | SType::Fixed(..) | SType::Ref(_)),
    }
}

fn gen_user_meta(c: &mut Choices) -> Vec<(String, Vec<u8>)> {
    let mut out = vec![];
    for i in 0..c.pick(4) {
        // (only keys starting with "avro." are reserved: look-alikes are ordinary user keys)
        let k = format!("{}{}", ["user.key", "k", "\u{e9}\u{4e2d}", "", "x y", "avro_tool", "avroSource", "avro-rs", "avro", "Avro.x"][c.pick(10)], i);
        let n = [0usize, 1, 5, 70][c.pick(4)];
        out.push((k, c.bytes(n)));
    }
    out
}

fn file_detail(sub: &Subject, file: &[u8], extra: Vec<(&str, Js)>) -> Js {
    let mut items = vec![("schema", Js::Str(sub.text.clone())), ("file", bytes_js(file))];
    items.extend(extra);
    Js::obj(items)
}

/// library writes -> reference reads
pub fn case_forward(c: &mut Choices, log: &mut CaseLog) -> CaseResult {
    let Some(sub) = gen_subject(c, &schema_cfg(), log)? else {
        return Ok(());
    };
    let md = min_depths(&sub.env);
    let vcfg = vgen::VgenCfg { big_collections: false, long_strings: false, ..vgen::VgenCfg::small() };
    let codec = gen_codec(c, true);
    let kind = codec_kind(&codec);
    let n = match c.weighted(&[1, 3, 3, 1]) {
        0 => 0,
        1 => 1 + c.pick(3),
        2 => 4 + c.pick(20),
        _ => 60 + c.pick(240),
    };
    let values: Vec<V> = (0..n).map(|_| vgen::gen_value_cfg(c, &sub.node, &sub.env, &md, &vcfg)).collect();
    let block_size = [0usize, 1, 40, 300, 16000][c.pick(5)];
    let user = gen_user_meta(c);
    let mut um: HashMap<String, Value> = HashMap::new();
    for (k, v) in &user {
        um.insert(k.clone(), Value::Bytes(v.clone()));
    }
    let mut w = Writer::builder()
        .schema(&sub.schema)
        .writer(Vec::new())
        .codec(codec)
        .block_size(block_size)
        .user_metadata(um)
        .build()
        .map_err(|e| Fail::new("C04/writer-build", format!("{e}")))?;
    for v in &values {
        w.append_value_ref(&to_lib(&sub.node, v, &sub.env)).map_err(|e| Fail::new("C04/append", format!("{e}")).with(detail(&sub, v, vec![])))?;
    }
    let file = w.into_inner().map_err(|e| Fail::new("C04/into-inner", format!("{e}")))?;
    log.label("case");
    log.label(&format!("codec:{kind}"));
    let f = refocf::read(&file).map_err(|e| Fail::new(format!("C04/forward-layout/{}", e.split(|c: char| !c.is_alphabetic() && c != ' ').next().unwrap_or("?").trim().replace(' ', "-")), format!("independent reader: {e}")).with(file_detail(&sub, &file, vec![])))?;
    // metadata
    let schema_bytes = f.meta_get("avro.schema").ok_or_else(|| Fail::new("C04/forward-no-schema", "avro.schema missing").with(file_detail(&sub, &file, vec![])))?;
    let schema_text = std::str::from_utf8(schema_bytes).map_err(|_| Fail::new("C04/forward-schema-not-utf8", "avro.schema is not UTF-8"))?;
    let embedded = specparse::node_from_text(schema_text)
        .map_err(|e| Fail::new("C04/forward-schema-unparsable", format!("embedded schema does not parse as strict JSON / schema: {e}")).with(file_detail(&sub, &file, vec![("embedded", Js::str(schema_text))])))?;
    if !canon_eq(&embedded, &sub.node) {
        return Err(Fail::new("C04/forward-schema-differs", "embedded schema denotes a different schema").with(file_detail(&sub, &file, vec![("embedded", Js::str(schema_text))])));
    }
    match (kind, f.meta_get("avro.codec")) {
        ("null", None) => {}
        (k, Some(name)) if name == k.as_bytes() => {}
        (k, other) => {
            return Err(Fail::new("C04/forward-codec-name", format!("avro.codec is {:?} for codec {k}", other.map(|b| String::from_utf8_lossy(b).to_string())))
                .with(file_detail(&sub, &file, vec![])));
        }
    }
    let got_user: BTreeMap<String, Vec<u8>> = f.meta.iter().filter(|(k, _)| !k.starts_with("avro.")).cloned().collect();
    let want_user: BTreeMap<String, Vec<u8>> = user.iter().cloned().collect();
    if got_user != want_user {
        return Err(Fail::new("C04/forward-user-metadata", format!("user metadata in file {got_user:?}, given {want_user:?}")).with(file_detail(&sub, &file, vec![])));
    }
    // blocks
    let eenv = env_of(&embedded);
    let mut idx = 0usize;
    for (bi, b) in f.blocks.iter().enumerate() {
        let raw = ref_decompress(kind, &b.payload).map_err(|e| {
            if e.starts_with("HARNESS") {
                Fail::new("HARNESS/refcodec", e)
            } else {
                Fail::new(format!("C04/forward-payload/{kind}"), format!("block {bi}: reference decompressor: {e}")).with(file_detail(&sub, &file, vec![]))
            }
        })?;
        let mut pos = 0;
        for _ in 0..b.count {
            let (v, used) = refbin::decode(&embedded, &eenv, &raw[pos..])
                .map_err(|e| Fail::new("C04/forward-datum", format!("block {bi}, value {idx}: {e:?}")).with(file_detail(&sub, &file, vec![])))?;
            pos += used;
            if idx >= values.len() || !v.sem_eq(&values[idx]) {
                return Err(Fail::new("C04/forward-value", format!("value {idx} differs")).with(file_detail(&sub, &file, vec![("got", Js::Str(v.to_js().render()))])));
            }
            idx += 1;
        }
        if pos != raw.len() {
            return Err(Fail::new("C04/forward-block-trailing", format!("block {bi}: {} bytes after {} values", raw.len() - pos, b.count)).with(file_detail(&sub, &file, vec![])));
        }
    }
    if idx != values.len() {
        return Err(Fail::new("C04/forward-count", format!("{idx} values in file, {} written", values.len())).with(file_detail(&sub, &file, vec![])));
    }
    if f.blocks.len() >= 2 {
        log.label("multi_block");
    }
    log.nontrivial = f.blocks.len() >= 2 || kind != "null";
    log.hash = fnv(&[b"F", sub.text.as_bytes(), &file[..file.len().min(4096)]].concat());
    log.sample = Some(Js::obj(vec![
        ("direction", Js::str("library->reference")),
        ("schema", Js::Str(sub.text.clone())),
        ("codec", Js::Str(codec_name(&codec))),
        ("values", Js::int(values.len() as i128)),
        ("blocks", Js::int(f.blocks.len() as i128)),
    ]));
    Ok(())
}

/// reference writes -> library reads
pub fn case_reverse(c: &mut Choices, log: &mut CaseLog) -> CaseResult {
    let Some(sub) = gen_subject(c, &schema_cfg(), log)? else {
        return Ok(());
    };
    let md = min_depths(&sub.env);
    let vcfg = vgen::VgenCfg { big_collections: false, long_strings: false, ..vgen::VgenCfg::small() };
    let kind = ["null", "deflate", "snappy", "bzip2", "xz", "zstandard"][c.weighted(&[4, 5, 4, 2, 2, 1])];
    let n = match c.weighted(&[1, 3, 3, 1]) {
        0 => 0,
        1 => 1 + c.pick(3),
        2 => 4 + c.pick(20),
        _ => 60 + c.pick(140),
    };
    let values: Vec<V> = (0..n).map(|_| vgen::gen_value_cfg(c, &sub.node, &sub.env, &md, &vcfg)).collect();
    let user = gen_user_meta(c);
    let mut marker = [0u8; 16];
    marker.copy_from_slice(&c.bytes(16));
    // metadata: schema, codec (absent or "null" for null), unknown avro.* keys, user keys
    let mut meta: Vec<(String, Vec<u8>)> = vec![("avro.schema".into(), sub.text.as_bytes().to_vec())];
    if kind != "null" || c.bool() {
        meta.push(("avro.codec".into(), kind.as_bytes().to_vec()));
    }
    if c.chance(1, 3) {
        meta.push(("avro.future.extension".into(), c.bytes(3)));
    }
    meta.extend(user.iter().cloned());
    let mut stats = LayoutStats::default();
    let mut file = {
        let mut layout = if c.bool() { Layout::Random(c) } else { Layout::Canonical };
        refocf::write_header(&meta, &mut layout, &marker, &mut stats)
    };
    // block partition
    let mut parts: Vec<usize> = vec![];
    let mut left = n;
    let mode = c.pick(3);
    while left > 0 {
        let take = match mode {
            0 => left,
            1 => 1,
            _ => 1 + c.pick(left),
        };
        parts.push(take);
        left -= take;
    }
    let mut idx = 0;
    for p in &parts {
        let mut raw = vec![];
        for v in &values[idx..idx + p] {
            raw.extend_from_slice(&refbin::encode_canonical(&sub.node, v, &sub.env));
        }
        idx += p;
        let stored = ref_compress(kind, &raw, c).map_err(harness_err)?;
        file.extend_from_slice(&refocf::write_block(*p, &stored, &marker));
    }
    log.label("case");
    log.label(&format!("codec:{kind}"));
    if parts.len() >= 2 {
        log.label("multi_block");
    }
    if stats.multi_block > 0 || stats.negative > 0 {
        log.label("meta_layout");
    }
    log.nontrivial = parts.len() >= 2 || kind != "null" || stats.multi_block > 0 || stats.negative > 0;
    log.hash = fnv(&[b"R", &file[..file.len().min(8192)]].concat());
    log.sample = Some(Js::obj(vec![
        ("direction", Js::str("reference->library")),
        ("schema", Js::Str(sub.text.clone())),
        ("codec", Js::str(kind)),
        ("values", Js::int(n as i128)),
        ("blocks", Js::int(parts.len() as i128)),
        ("metadata_keys", Js::Arr(meta.iter().map(|(k, _)| Js::str(k)).collect())),
    ]));
    let rb = match guard(|| read_back(&file)) {
        Ok(Ok(rb)) => rb,
        Ok(Err(e)) => return Err(Fail::new("C04/reverse-header-rejected", format!("library cannot open a conforming file: {e}")).with(file_detail(&sub, &file, vec![]))),
        Err(p) => return Err(Fail::new(format!("C04/reverse-panic/{}", p.key_loc()), p.msg).with(file_detail(&sub, &file, vec![]))),
    };
    if let Some(e) = &rb.error {
        return Err(Fail::new(format!("C04/reverse-block-rejected/{kind}"), format!("after {} values: {e}", rb.values.len())).with(file_detail(&sub, &file, vec![])));
    }
    if rb.values.len() != values.len() {
        return Err(Fail::new("C04/reverse-count", format!("library read {} values, file holds {}", rb.values.len(), values.len())).with(file_detail(&sub, &file, vec![])));
    }
    for (i, got) in rb.values.iter().enumerate() {
        let ok = from_lib(&sub.node, got, &sub.env).map(|g| g.sem_eq(&values[i])).unwrap_or(false);
        if !ok {
            return Err(Fail::new("C04/reverse-value", format!("value {i}: {}", short(got))).with(file_detail(&sub, &file, vec![("want", Js::Str(values[i].to_js().render()))])));
        }
    }
    let want_schema = serde_json::to_string(&sub.schema).unwrap_or_default();
    if rb.schema_json != want_schema {
        return Err(Fail::new("C04/reverse-schema", format!("writer_schema() is {} for text {}", rb.schema_json, sub.text)).with(file_detail(&sub, &file, vec![])));
    }
    let got_user: BTreeMap<String, Vec<u8>> = rb.meta.into_iter().collect();
    let want_user: BTreeMap<String, Vec<u8>> = user.iter().cloned().collect();
    if got_user != want_user {
        return Err(Fail::new("C04/reverse-user-metadata", format!("user_metadata() {got_user:?}, file has {want_user:?}")).with(file_detail(&sub, &file, vec![])));
    }
    Ok(())
}

pub fn dispatch(campaign: &str, c: &mut Choices, log: &mut CaseLog) -> Option<CaseResult> {
    match campaign {
        "forward" => Some(case_forward(c, log)),
        "reverse" => Some(case_reverse(c, log)),
        _ => None,
    }
}

pub fn self_tests() {
    if let Err(e) = refbin::self_test() {
        infra(&format!("refbin self-test failed: {e}"));
    }
    if let Err(e) = refcodec::self_test() {
        infra(&format!("refcodec self-test failed: {e}"));
    }
    if let Err(e) = refcodec::self_test_with_python() {
        infra(&format!("refcodec/python self-test failed: {e}"));
    }
}

pub fn run(mut chk: Check) -> ! {
    self_tests();
    chk.rule = "forward: generated schema/values/codec/block size/user metadata -> library Writer -> independent container reader (magic, metadata map, marker, blocks) with reference decompressors (own inflate, own snappy+CRC-32, Python bz2/lzma) and the reference datum decoder. \
        reverse: independent writer (metadata map in generated block layouts and key orders, unknown avro.* keys, generated block partition, reference compressors: stored/fixed-Huffman/Python zlib level 0-9, own snappy, Python bz2/lzma) -> library Reader. \
        Non-trivial: >=2 blocks, a non-null codec, or a metadata map split over several blocks / negative count. Distinct by hash of the file."
        .into();
    chk.assumptions = vec![
        "Python's zlib/bz2/lzma and the harness's own inflate/snappy/CRC-32 are the reference codecs (self-tests at start-up, incl. own inflate vs Python zlib on a dynamic-Huffman stream)".into(),
        "zstandard has no independent implementation in this sandbox: its payloads go through the library's codec in both directions (layout still checked independently)".into(),
    ];
    chk.replay_files(dispatch);
    let n = chk.scale(1500, 60_000);
    chk.campaign(CampaignCfg::new("forward", n).len(0, 1500), case_forward);
    chk.campaign(CampaignCfg::new("reverse", n).len(0, 1500), case_reverse);
    chk.require_label("forward:multi_block", "forward:case", 5.0);
    chk.require_label("reverse:multi_block", "reverse:case", 5.0);
    chk.require_label("reverse:meta_layout", "reverse:case", 5.0);
    chk.finish()
}
