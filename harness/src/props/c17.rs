//! C17 — derived schemas are valid and accept every value of their type.

use super::c10;
use super::c16::{corpus_dispatch, CORPUS_LEN};
use super::common::*;
use crate::choices::{fnv, Choices};
use crate::corpus::*;
use crate::json::Js;
use crate::refcheck::{dump, first_diff, well_formed};
use crate::runner::*;
use apache_avro::reader::datum::GenericDatumReader;
use apache_avro::schema::ResolvedSchema;
use apache_avro::writer::datum::GenericDatumWriter;
use apache_avro::{Codec, Reader, Schema, SpecificSingleObjectReader, SpecificSingleObjectWriter, Writer};

/// Per type: schema-level oracles once, then value-level oracles on a batch of generated values.
pub fn check_type<T: Corpus>(name: &str, _coincides: bool, c: &mut Choices, log: &mut CaseLog) -> CaseResult {
    let schema: Schema = guard(|| T::get_schema()).map_err(|p| Fail::new(format!("C17/get-schema-panic/{name}"), format!("get_schema() panicked at {}: {}", p.short_loc(), p.msg)))?;
    let text = serde_json::to_string(&schema).map_err(|e| Fail::new(format!("C17/schema-serialize/{name}"), format!("{e}")))?;
    let det = |extra: Vec<(&str, Js)>| {
        let mut items = vec![("type", Js::str(name)), ("derived_schema", Js::Str(text.clone()))];
        items.extend(extra);
        Js::obj(items)
    };
    log.label("case");
    log.label(&format!("type:{name}"));
    // deterministic
    let again = T::get_schema();
    if let Some(d) = first_diff(&dump(&schema), &dump(&again), "") {
        return Err(Fail::new(format!("C17/not-deterministic/{name}"), format!("two calls of get_schema() differ at {d}")).with(det(vec![])));
    }
    // well formed, resolvable, JSON-stable
    if let Some(p) = well_formed(&schema).first() {
        return Err(Fail::new(format!("C17/ill-formed/{}/{name}", p.class), format!("derived schema is not well formed: {}", p.msg)).with(det(vec![])));
    }
    if let Err(e) = ResolvedSchema::new(&schema) {
        return Err(Fail::new(format!("C17/unresolvable/{name}"), format!("{e}")).with(det(vec![])));
    }
    c10::check_text(&text, false).map_err(|f| Fail::new(format!("C17/json-roundtrip/{name}/{}", f.key), f.msg).with(det(vec![])))?;
    let reparsed = Schema::parse_str(&text).map_err(|e| Fail::new(format!("C17/json-roundtrip/{name}/rejected"), format!("{e}")).with(det(vec![])))?;
    if let Some(d) = first_diff(&dump(&schema), &dump(&reparsed), "") {
        return Err(Fail::new(format!("C17/json-roundtrip/{name}/differs"), format!("derived schema changes in a JSON round trip at {d}")).with(det(vec![])));
    }
    // values
    let n = 1 + c.pick(6);
    let values: Vec<T> = (0..n).map(|_| T::arb(c)).collect();
    log.nontrivial = values.iter().any(|v| v.interesting());
    log.hash = fnv(format!("{name}|{values:?}").as_bytes());
    log.sample = Some(det(vec![("values", Js::Str(format!("{values:?}").chars().take(300).collect()))]));
    let vdet = |v: &T, extra: Vec<(&str, Js)>| {
        let mut items = vec![("type", Js::str(name)), ("derived_schema", Js::Str(text.clone())), ("value", Js::Str(format!("{v:?}")))];
        items.extend(extra);
        Js::obj(items)
    };
    let w = GenericDatumWriter::builder(&schema).build().map_err(|e| Fail::new(format!("C17/writer-build/{name}"), format!("{e}")).with(det(vec![])))?;
    let r = GenericDatumReader::builder(&schema).build().map_err(|e| Fail::new(format!("C17/reader-build/{name}"), format!("{e}")).with(det(vec![])))?;
    for v in &values {
        log.sub_evals += 1;
        let bytes = guard(|| w.write_ser_to_vec(v))
            .map_err(|p| Fail::new(format!("C17/panic/{}", p.key_loc()), p.msg.clone()).with(vdet(v, vec![])))?
            .map_err(|e| Fail::new(format!("C17/serialize-error/{name}"), format!("a value of the type does not serialize under its derived schema: {e}")).with(vdet(v, vec![])))?;
        let mut s: &[u8] = &bytes;
        let back: T = r.read_deser(&mut s).map_err(|e| Fail::new(format!("C17/deserialize-error/{name}"), format!("{e}")).with(vdet(v, vec![("bytes", bytes_js(&bytes))])))?;
        if !back.same(v) || !s.is_empty() {
            return Err(Fail::new(format!("C17/roundtrip-mismatch/{name}"), format!("deserialized {back:?}")).with(vdet(v, vec![("bytes", bytes_js(&bytes))])));
        }
        let mut s: &[u8] = &bytes;
        let gv = r.read_value(&mut s).map_err(|e| Fail::new(format!("C17/generic-rejects/{name}"), format!("{e}")).with(vdet(v, vec![("bytes", bytes_js(&bytes))])))?;
        if !gv.validate(&schema) {
            return Err(Fail::new(format!("C17/generic-not-validating/{name}"), "the generically decoded value does not validate against the derived schema").with(vdet(v, vec![])));
        }
    }
    // container file
    let codec = [Codec::Null, Codec::Deflate(Default::default()), Codec::Snappy][c.pick(3)];
    let mut cw = Writer::builder().schema(&schema).writer(Vec::new()).codec(codec).block_size([1usize, 64, 16000][c.pick(3)]).build().map_err(|e| Fail::new(format!("C17/container-writer/{name}"), format!("{e}")).with(det(vec![])))?;
    for v in &values {
        cw.append_ser(v).map_err(|e| Fail::new(format!("C17/container-append/{name}"), format!("{e}")).with(vdet(v, vec![])))?;
    }
    let file = cw.into_inner().map_err(|e| Fail::new(format!("C17/container-finish/{name}"), format!("{e}")).with(det(vec![])))?;
    let reader = Reader::new(&file[..]).map_err(|e| Fail::new(format!("C17/container-open/{name}"), format!("a file written with the derived schema cannot be opened: {e}")).with(det(vec![])))?;
    let mut got: Vec<T> = vec![];
    for item in reader.into_deser_iter::<T>() {
        got.push(item.map_err(|e| Fail::new(format!("C17/container-read/{name}"), format!("{e}")).with(det(vec![])))?);
    }
    if got.len() != values.len() || got.iter().zip(&values).any(|(a, b)| !a.same(b)) {
        return Err(Fail::new(format!("C17/container-mismatch/{name}"), format!("{} values back for {}", got.len(), values.len())).with(det(vec![])));
    }
    // single-object typed API
    let sw = SpecificSingleObjectWriter::<T>::new().map_err(|e| Fail::new(format!("C17/single-object-writer/{name}"), format!("{e}")).with(det(vec![])))?;
    let sr = SpecificSingleObjectReader::<T>::new().map_err(|e| Fail::new(format!("C17/single-object-reader/{name}"), format!("{e}")).with(det(vec![])))?;
    for v in values.iter().take(2) {
        let mut msg = vec![];
        sw.write_ref(v, &mut msg).map_err(|e| Fail::new(format!("C17/single-object-write/{name}"), format!("{e}")).with(vdet(v, vec![])))?;
        let back = sr.read(&mut &msg[..]).map_err(|e| Fail::new(format!("C17/single-object-read/{name}"), format!("{e}")).with(vdet(v, vec![("message", bytes_js(&msg))])))?;
        if !back.same(v) {
            return Err(Fail::new(format!("C17/single-object-mismatch/{name}"), format!("{back:?}")).with(vdet(v, vec![])));
        }
    }
    Ok(())
}

pub fn case_corpus(c: &mut Choices, log: &mut CaseLog) -> CaseResult {
    let idx = c.pick(CORPUS_LEN);
    corpus_dispatch!(idx, c, log, check_type)
}

/// every corpus type at least once: choices = [index, seed...]
pub fn case_each(c: &mut Choices, log: &mut CaseLog) -> CaseResult {
    let idx = c.raw() as usize % CORPUS_LEN;
    corpus_dispatch!(idx, c, log, check_type)
}

pub fn dispatch(campaign: &str, c: &mut Choices, log: &mut CaseLog) -> Option<CaseResult> {
    match campaign {
        "corpus" => Some(case_corpus(c, log)),
        "each" => Some(case_each(c, log)),
        _ => None,
    }
}

pub fn run(mut chk: Check) -> ! {
    chk.rule = "a corpus of 34 type definitions compiled into the harness (field types: all scalars, u64/i128/u128, char, String, bytes/fixed/array via apache_avro::serde helpers, Option/Vec/HashMap nestings, nested structs and enums, recursion through Option<Box<Self>> and Vec<Self>, one generic parameter, Uuid; container attributes rename_all (camelCase, SCREAMING_SNAKE_CASE), namespace, doc, alias, transparent; field attributes rename, alias, skip, skip_serializing_if + default, flatten, with; enum shapes: unit-only, union of records, bare union, tag+content record, internally tagged record; an enum used twice in one schema) x generated values. \
        Oracle per type: get_schema() is deterministic, well formed by the harness's walker, resolvable, survives a JSON round trip with an identical complete dump; per value: write_ser under the derived schema, read_deser returns an equal value, the generic decoder's value validates; the same through Writer::append_ser / Reader::into_deser_iter (codec x block size) and SpecificSingleObjectWriter/Reader. \
        Non-trivial: a batch containing a value that exercises sequences/maps, non-first variants or defaulted fields. Distinct by hash of (type, values)."
        .into();
    chk.assumptions = vec![
        "the program space is sampled by a fixed, hand-written corpus compiled into the harness (no program generation in this round): derive defects outside these attribute combinations are not reached".into(),
        "compile-time rejection by the derive (unsupported combinations) is outside the property; corpus types follow the documented constraints (e.g. defaults for variant fields of internally tagged enums)".into(),
    ];
    chk.replay_files(dispatch);
    if chk.replay_only.is_none() {
        let inputs: Vec<Vec<u64>> = (0..CORPUS_LEN as u64).flat_map(|i| (0..4u64).map(move |k| {
            let mut v = vec![i];
            v.extend((0..120u64).map(|j| crate::choices::derive_seed(i * 100 + k, "c17each", j)));
            v
        })).collect();
        chk.explicit("each", &inputs, case_each);
    }
    let n = chk.scale(24_000, 400_000);
    chk.campaign(CampaignCfg::new("corpus", n).len(0, 1500), case_corpus);
    chk.finish()
}
