//! C15 — every codec round-trips every payload and interoperates with reference codecs.

use super::c04::{ref_compress, ref_decompress, self_tests};
use super::common::*;
use crate::choices::{fnv, Choices};
use crate::json::Js;
use crate::refcodec;
use crate::runner::*;
use apache_avro::error::Details;
use apache_avro::{Bzip2Settings, Codec, DeflateSettings, XzSettings, ZstandardSettings};

pub const LIMIT: usize = 1 << 20;

/// Every codec x every valid level.
pub fn all_codecs() -> Vec<Codec> {
    let mut v = vec![Codec::Null, Codec::Snappy];
    for l in DEFLATE_LEVELS {
        v.push(Codec::Deflate(DeflateSettings::new(*l)));
    }
    for l in 1..=9u8 {
        v.push(Codec::Bzip2(Bzip2Settings::new(l)));
    }
    for l in 0..=9u8 {
        v.push(Codec::Xz(XzSettings::new(l)));
    }
    for l in 0..=22u8 {
        v.push(Codec::Zstandard(ZstandardSettings::new(l)));
    }
    // zstd clamps larger values
    for l in [23u8, 100, 255] {
        v.push(Codec::Zstandard(ZstandardSettings::new(l)));
    }
    v
}

pub fn gen_payload(c: &mut Choices, big: bool) -> Vec<u8> {
    let len = match c.weighted(&[1, 1, 4, 4, 3, 2, if big { 2 } else { 0 }]) {
        0 => 0,
        1 => 1,
        2 => 2 + c.pick(200),
        3 => 200 + c.pick(8000),
        4 => [32767usize, 32768, 32769, 65535, 65536, 65537, 65540][c.pick(7)],
        5 => 20_000 + c.pick(120_000),
        _ => 300_000 + c.pick(1_200_000),
    };
    match c.pick(5) {
        0 => vec![c.pick(256) as u8; len],
        1 => {
            // repeated pattern, match distances up to 40000
            let pmax = [7usize, 300, 5000, 40_000][c.pick(4)];
            let plen = 1 + c.pick(pmax);
            let pat = c.bytes(plen.min(4096));
            let mut full = Vec::with_capacity(plen);
            while full.len() < plen {
                let take = (plen - full.len()).min(pat.len());
                full.extend_from_slice(&pat[..take]);
                if let Some(last) = full.last_mut() {
                    *last = last.wrapping_add(1);
                }
            }
            full.iter().cycle().take(len).copied().collect()
        }
        2 => {
            let words = ["avro ", "schema ", "record ", "the ", "0123456789 ", "\n", "{\"name\":\"f\",\"type\":\"int\"},"];
            let mut out = Vec::with_capacity(len);
            while out.len() < len {
                out.extend_from_slice(words[c.pick(words.len())].as_bytes());
            }
            out.truncate(len);
            out
        }
        3 => {
            // incompressible: xorshift expanded from a few choices
            let mut x = c.raw() | 1;
            let mut out = Vec::with_capacity(len + 8);
            while out.len() < len {
                x ^= x << 13;
                x ^= x >> 7;
                x ^= x << 17;
                out.extend_from_slice(&x.to_le_bytes());
            }
            out.truncate(len);
            out
        }
        _ => {
            // mixed: compressible prefix, random middle, zeros
            let mut out = vec![0u8; len];
            let a = len / 3;
            let mut x = c.raw() | 1;
            for b in out[a..2 * a].iter_mut() {
                x ^= x << 13;
                x ^= x >> 7;
                x ^= x << 17;
                *b = x as u8;
            }
            for (i, b) in out[..a].iter_mut().enumerate() {
                *b = (i % 251) as u8;
            }
            out
        }
    }
}

fn pdetail(codec: &Codec, payload: &[u8], extra: Vec<(&str, Js)>) -> Js {
    let mut items = vec![("codec", Js::Str(codec_name(codec))), ("payload_len", Js::int(payload.len() as i128)), ("payload_head", bytes_js(&payload[..payload.len().min(256)])), ("payload_fnv", Js::Str(format!("{:016x}", fnv(payload))))];
    items.extend(extra);
    Js::obj(items)
}

fn harness_or(key: String, e: String, d: Js) -> Fail {
    if e.starts_with("HARNESS") { Fail::new("HARNESS/refcodec", e) } else { Fail::new(key, e).with(d) }
}

pub fn check_roundtrip(codec: Codec, payload: &[u8], c: &mut Choices) -> CaseResult {
    let kind = codec_kind(&codec);
    let mut stream = payload.to_vec();
    guard(|| codec.compress(&mut stream))
        .map_err(|p| Fail::new(format!("C15/panic/{}", p.key_loc()), format!("compress panicked: {}", p.msg)).with(pdetail(&codec, payload, vec![])))?
        .map_err(|e| Fail::new(format!("C15/compress-error/{kind}"), format!("{e}")).with(pdetail(&codec, payload, vec![])))?;
    let compressed = stream.clone();
    guard(|| codec.decompress(&mut stream))
        .map_err(|p| Fail::new(format!("C15/panic/{}", p.key_loc()), format!("decompress panicked: {}", p.msg)).with(pdetail(&codec, payload, vec![])))?
        .map_err(|e| Fail::new(format!("C15/roundtrip-error/{kind}"), format!("decompressing own output failed: {e}")).with(pdetail(&codec, payload, vec![("compressed", bytes_js(&compressed))])))?;
    if stream != payload {
        return Err(Fail::new(format!("C15/roundtrip-mismatch/{kind}"), format!("decompress(compress(x)) has {} bytes, x has {}", stream.len(), payload.len())).with(pdetail(&codec, payload, vec![("compressed", bytes_js(&compressed))])));
    }
    if kind == "null" {
        if compressed != payload {
            return Err(Fail::new("C15/null-not-identity", "null codec changed the bytes").with(pdetail(&codec, payload, vec![])));
        }
        return Ok(());
    }
    // reference decompressor accepts the library's output
    let out = ref_decompress(kind, &compressed).map_err(|e| harness_or(format!("C15/interop-out/{kind}"), format!("reference decompressor rejects the library's output: {e}"), pdetail(&codec, payload, vec![("compressed", bytes_js(&compressed))])))?;
    if out != payload {
        return Err(Fail::new(format!("C15/interop-out-mismatch/{kind}"), "reference decompressor reads different bytes").with(pdetail(&codec, payload, vec![("compressed", bytes_js(&compressed))])));
    }
    if kind == "deflate" {
        // second opinion: Python zlib raw
        let py = refcodec::py("deflate_d", &compressed).map_err(|e| harness_or("C15/interop-out/deflate-python".into(), format!("Python zlib (raw, wbits -15) rejects the library's output: {e}"), pdetail(&codec, payload, vec![("compressed", bytes_js(&compressed))])))?;
        if py != payload {
            return Err(Fail::new("C15/interop-out-mismatch/deflate-python", "Python zlib reads different bytes").with(pdetail(&codec, payload, vec![])));
        }
    }
    if kind == "snappy" {
        // trailer: big-endian CRC-32 of the uncompressed data; any change is rejected
        let n = compressed.len();
        if n < 4 || compressed[n - 4..] != refcodec::crc32(payload).to_be_bytes() {
            return Err(Fail::new("C15/snappy-trailer", "last four bytes are not the big-endian CRC-32 of the uncompressed data").with(pdetail(&codec, payload, vec![("compressed", bytes_js(&compressed))])));
        }
        let mut bad = compressed.clone();
        let pos = n - 1 - c.pick(4);
        bad[pos] ^= 1 << c.pick(8);
        if codec.decompress(&mut bad).is_ok() {
            return Err(Fail::new("C15/snappy-bad-crc-accepted", "a snappy block with a wrong checksum was accepted").with(pdetail(&codec, payload, vec![])));
        }
    }
    // the library accepts the reference compressor's output
    if kind != "zstandard" {
        let theirs = ref_compress(kind, payload, c).map_err(|e| harness_or(format!("C15/reference-compressor/{kind}"), e, pdetail(&codec, payload, vec![])))?;
        let mut s = theirs.clone();
        guard(|| codec.decompress(&mut s))
            .map_err(|p| Fail::new(format!("C15/panic/{}", p.key_loc()), format!("decompress panicked: {}", p.msg)).with(pdetail(&codec, payload, vec![("reference_stream", bytes_js(&theirs))])))?
            .map_err(|e| Fail::new(format!("C15/interop-in/{kind}"), format!("library rejects a reference stream: {e}")).with(pdetail(&codec, payload, vec![("reference_stream", bytes_js(&theirs))])))?;
        if s != payload {
            return Err(Fail::new(format!("C15/interop-in-mismatch/{kind}"), "library reads different bytes from a reference stream").with(pdetail(&codec, payload, vec![("reference_stream", bytes_js(&theirs))])));
        }
    }
    Ok(())
}

pub fn case_roundtrip(c: &mut Choices, log: &mut CaseLog) -> CaseResult {
    // kind first, then level; the memory-hungry levels (zstandard >= 20, xz >= 7: hundreds of MB of
    // encoder state per call) are visited by the `levels` campaign and only occasionally here
    let codec = match c.weighted(&[1, 3, 4, 3, 3, 3]) {
        0 => Codec::Null,
        1 => Codec::Snappy,
        2 => Codec::Deflate(DeflateSettings::new(DEFLATE_LEVELS[c.pick(DEFLATE_LEVELS.len())])),
        3 => Codec::Bzip2(Bzip2Settings::new(1 + c.pick(9) as u8)),
        4 => Codec::Xz(XzSettings::new(if c.chance(1, 12) { 7 + c.pick(3) as u8 } else { c.pick(7) as u8 })),
        _ => Codec::Zstandard(ZstandardSettings::new(if c.chance(1, 12) { 20 + c.pick(3) as u8 } else { c.pick(20) as u8 })),
    };
    let big = std::env::var("VERIF_TIER").map(|t| t == "thorough").unwrap_or(false);
    let mut payload = gen_payload(c, big);
    // a payload beyond the allocation limit is refused by design (the `limit` campaign's subject)
    payload.truncate(LIMIT);
    log.label("case");
    log.label(&format!("codec:{}", codec_kind(&codec)));
    log.nontrivial = payload.len() >= 2 && codec != Codec::Null;
    log.hash = fnv(&payload) ^ fnv(codec_name(&codec).as_bytes());
    log.sample = Some(Js::obj(vec![("codec", Js::Str(codec_name(&codec))), ("payload_len", Js::int(payload.len() as i128)), ("payload_head", bytes_js(&payload[..payload.len().min(32)]))]));
    check_roundtrip(codec, &payload, c)
}

/// Every codec/level on a few fixed payloads (so that no level goes unvisited): choices = [codec index, payload index]
pub fn case_levels(c: &mut Choices, log: &mut CaseLog) -> CaseResult {
    let codecs = all_codecs();
    let codec = codecs[c.raw() as usize % codecs.len()];
    let which = c.raw() % 4;
    let payload: Vec<u8> = match which {
        0 => vec![],
        1 => b"a".to_vec(),
        2 => b"hello hello hello hello hello, avro avro avro".repeat(40),
        _ => (0..70_000u32).map(|i| (i.wrapping_mul(2654435761) >> 13) as u8).collect(),
    };
    log.label("case");
    log.nontrivial = payload.len() >= 2 && codec != Codec::Null;
    log.hash = fnv(&payload) ^ fnv(codec_name(&codec).as_bytes());
    let seed = [which, 3, 5, 7];
    let mut cc = Choices::new(&seed);
    check_roundtrip(codec, &payload, &mut cc)
}

/// Arbitrary / damaged input: Err, or data no larger than the limit.
pub fn case_hostile(c: &mut Choices, log: &mut CaseLog) -> CaseResult {
    let codecs = [Codec::Deflate(Default::default()), Codec::Snappy, Codec::Zstandard(Default::default()), Codec::Bzip2(Bzip2Settings::new(1)), Codec::Xz(XzSettings::new(1))];
    let codec = codecs[c.pick(codecs.len())];
    let input: Vec<u8> = match c.pick(3) {
        0 => {
            let n = c.pick(64);
            c.bytes(n)
        }
        _ => {
            // damaged valid stream
            let payload = gen_payload(c, false);
            let mut s = payload[..payload.len().min(5000)].to_vec();
            let _ = codec.compress(&mut s);
            match c.pick(3) {
                0 => {
                    let cut = c.pick(s.len() + 1);
                    s.truncate(cut);
                }
                1 => {
                    if !s.is_empty() {
                        let p = c.pick(s.len());
                        s[p] ^= 1 << c.pick(8);
                    }
                }
                _ => {
                    let n = c.pick(6);
                    s.extend_from_slice(&c.bytes(n));
                }
            }
            s
        }
    };
    log.label("case");
    log.label(&format!("codec:{}", codec_kind(&codec)));
    log.nontrivial = input.len() >= 2;
    log.hash = fnv(&input) ^ fnv(codec_kind(&codec).as_bytes());
    let mut s = input.clone();
    let r = guard(|| codec.decompress(&mut s)).map_err(|p| Fail::new(format!("C15/panic/{}", p.key_loc()), format!("decompress panicked at {}: {}", p.short_loc(), p.msg)).with(Js::obj(vec![("codec", Js::str(codec_kind(&codec))), ("input", bytes_js(&input))])))?;
    if r.is_ok() {
        log.label("accepted_damaged");
        if s.len() > LIMIT {
            return Err(Fail::new(format!("C15/over-limit/{}", codec_kind(&codec)), format!("{} bytes returned, limit {LIMIT}", s.len())).with(Js::obj(vec![("codec", Js::str(codec_kind(&codec))), ("input", bytes_js(&input))])));
        }
    }
    Ok(())
}

/// Output cap: exactly L passes, L+1 and 8L are refused. choices = [codec index, which]
pub fn case_limit(c: &mut Choices, log: &mut CaseLog) -> CaseResult {
    let codecs = [Codec::Deflate(Default::default()), Codec::Snappy, Codec::Zstandard(Default::default()), Codec::Bzip2(Bzip2Settings::new(1)), Codec::Xz(XzSettings::new(1))];
    let codec = codecs[c.raw() as usize % codecs.len()];
    let (len, want_ok) = match c.raw() % 4 {
        0 => (LIMIT, true),
        1 => (LIMIT + 1, false),
        2 => (LIMIT - 1, true),
        _ => (8 * LIMIT, false),
    };
    let payload = vec![0u8; len];
    let mut s = payload.clone();
    codec.compress(&mut s).map_err(|e| Fail::new("C15/compress-error", format!("{e}")))?;
    let compressed_len = s.len();
    let r = guard(|| codec.decompress(&mut s)).map_err(|p| Fail::new(format!("C15/panic/{}", p.key_loc()), p.msg.clone()))?;
    log.label("case");
    log.nontrivial = true;
    log.hash = fnv(format!("{}/{len}", codec_kind(&codec)).as_bytes());
    log.sample = Some(Js::obj(vec![("codec", Js::str(codec_kind(&codec))), ("uncompressed_len", Js::int(len as i128)), ("compressed_len", Js::int(compressed_len as i128)), ("limit", Js::int(LIMIT as i128)), ("expect_ok", Js::Bool(want_ok))]));
    match (r, want_ok) {
        (Ok(()), true) => {
            if s.len() != len {
                return Err(Fail::new(format!("C15/limit-roundtrip/{}", codec_kind(&codec)), format!("{} bytes back for {len}", s.len())));
            }
            Ok(())
        }
        (Err(_), false) => Ok(()),
        (Ok(()), false) => Err(Fail::new(format!("C15/over-limit/{}", codec_kind(&codec)), format!("{len} bytes decompressed although the limit is {LIMIT} (output {})", s.len()))),
        (Err(e), true) => {
            let what = if matches!(e.details(), Details::MemoryAllocation { .. }) { "refused-at-limit" } else { "error-at-limit" };
            Err(Fail::new(format!("C15/{what}/{}", codec_kind(&codec)), format!("{len} bytes (limit {LIMIT}) refused: {e}")))
        }
    }
}

pub fn dispatch(campaign: &str, c: &mut Choices, log: &mut CaseLog) -> Option<CaseResult> {
    match campaign {
        "roundtrip" => Some(case_roundtrip(c, log)),
        "levels" => Some(case_levels(c, log)),
        "hostile" => Some(case_hostile(c, log)),
        "limit" => Some(case_limit(c, log)),
        _ => None,
    }
}

pub fn run(mut chk: Check) -> ! {
    self_tests();
    if apache_avro::util::max_allocation_bytes(LIMIT) != LIMIT {
        infra("could not set the allocation limit first");
    }
    chk.rule = "levels: every codec x every valid level (deflate 6, bzip2 1-9, xz 0-9, zstandard 0-22 and clamped 23/100/255, snappy, null) x 4 fixed payloads; roundtrip: generated payloads (empty, 1 byte, runs, patterns with match distances up to 40000, text, incompressible, mixed; lengths around 32 KiB and 64 KiB, up to 140 KB quick / 1.5 MB thorough) x random codec+level. \
        Oracle: decompress(compress(x)) == x; the library's output is read to x by the reference decompressor (own inflate and Python zlib raw for deflate, own snappy + big-endian CRC-32 trailer, Python bz2/lzma) and reference streams (stored/fixed-Huffman/Python zlib 0-9, own snappy, Python bz2/lzma) are read to x by the library; a flipped snappy trailer bit is rejected. \
        hostile: random bytes and truncated/bit-flipped/extended valid streams -> Err or output <= limit (1 MiB in this process). limit: L-1 and L zeros pass, L+1 and 8L are refused, per codec. Non-trivial: payload >= 2 bytes and codec != null; distinct by (codec, level, payload hash)."
        .into();
    chk.assumptions = vec![
        "levels outside a codec's documented domain (bzip2 0 or >9, xz >9) panic inside the codec constructors and are not 'compression settings of the codec'; they are not generated".into(),
        "zstandard has no independent implementation here (round trip and limits only)".into(),
    ];
    chk.replay_files(dispatch);
    if chk.replay_only.is_none() {
        let nc = all_codecs().len() as u64;
        let mut inputs = vec![];
        for i in 0..nc {
            for p in 0..4u64 {
                inputs.push(vec![i, p]);
            }
        }
        chk.explicit("levels", &inputs, case_levels);
        let mut lim = vec![];
        for i in 0..5u64 {
            for w in 0..4u64 {
                lim.push(vec![i, w]);
            }
        }
        chk.explicit("limit", &lim, case_limit);
    }
    let n = chk.scale(1200, 12_000);
    chk.campaign(CampaignCfg::new("roundtrip", n).len(0, 200), case_roundtrip);
    chk.campaign(CampaignCfg::new("hostile", n * 30).len(0, 200), case_hostile);
    chk.finish()
}
