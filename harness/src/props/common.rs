//! Helpers shared by the property modules.

use crate::choices::Choices;
use crate::json::{hex, Js};
use crate::runner::{CaseLog, Fail};
use crate::sgen::{gen_schema, SgenCfg};
use crate::spec::*;
use crate::tolib;
use apache_avro::Schema;

pub struct Subject {
    pub node: SNode,
    pub env: Env,
    pub text: String,
    pub schema: Schema,
}

/// Generate a schema and parse it with the library. A rejected generated schema
/// is C11's business (completeness); other properties label it and move on.
pub fn gen_subject(c: &mut Choices, cfg: &SgenCfg, log: &mut CaseLog) -> Result<Option<Subject>, Fail> {
    let node = gen_schema(c, cfg);
    let env = env_of(&node);
    match tolib::parse_schema(&node) {
        Ok((text, schema)) => Ok(Some(Subject { node, env, text, schema })),
        Err(e) => {
            log.label("schema_rejected");
            if std::env::var("VERIF_DEBUG_REJECT").is_ok() {
                eprintln!("schema rejected: {e}\n  {}", render_text(&node));
            }
            Ok(None)
        }
    }
}

pub fn bytes_js(b: &[u8]) -> Js {
    if b.len() > 4096 {
        Js::Str(format!("{}...({} bytes)", hex(&b[..4096]), b.len()))
    } else {
        Js::Str(hex(b))
    }
}

pub fn detail(subject: &Subject, v: &V, extra: Vec<(&str, Js)>) -> Js {
    let mut items = vec![("schema", Js::Str(subject.text.clone())), ("value", Js::Str(v.to_js().render()))];
    items.extend(extra);
    Js::obj(items)
}
