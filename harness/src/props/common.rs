//! Helpers shared by the property modules.

use crate::choices::Choices;
use crate::json::{hex, Js};
use crate::runner::{CaseLog, Fail};
use crate::sgen::{gen_schema, SgenCfg};
use crate::spec::*;
use crate::tolib;
use apache_avro::Schema;

pub struct Subject {
    pub node: SNode,
    pub env: Env,
    pub text: String,
    pub schema: Schema,
}

/// Generate a schema and parse it with the library. A rejected generated schema
/// is C11's business (completeness); other properties label it and move on.
pub fn gen_subject(c: &mut Choices, cfg: &SgenCfg, log: &mut CaseLog) -> Result<Option<Subject>, Fail> {
    let node = gen_schema(c, cfg);
    let env = env_of(&node);
    match tolib::parse_schema(&node) {
        Ok((text, schema)) => Ok(Some(Subject { node, env, text, schema })),
        Err(e) => {
            log.label("schema_rejected");
            if std::env::var("VERIF_DEBUG_REJECT").is_ok() {
                eprintln!("schema rejected: {e}\n  {}", render_text(&node));
            }
            Ok(None)
        }
    }
}

pub fn bytes_js(b: &[u8]) -> Js {
    if b.len() > 4096 {
        Js::Str(format!("{}...({} bytes)", hex(&b[..4096]), b.len()))
    } else {
        Js::Str(hex(b))
    }
}

pub fn detail(subject: &Subject, v: &V, extra: Vec<(&str, Js)>) -> Js {
    let mut items = vec![("schema", Js::Str(subject.text.clone())), ("value", Js::Str(v.to_js().render()))];
    items.extend(extra);
    Js::obj(items)
}

// ---------------------------------------------------------------- codecs

use apache_avro::{Bzip2Settings, Codec, DeflateSettings, XzSettings, ZstandardSettings};
use miniz_oxide::deflate::CompressionLevel;

pub const DEFLATE_LEVELS: &[CompressionLevel] = &[
    CompressionLevel::NoCompression,
    CompressionLevel::BestSpeed,
    CompressionLevel::DefaultLevel,
    CompressionLevel::BestCompression,
    CompressionLevel::UberCompression,
    CompressionLevel::DefaultCompression,
];

/// Every codec with a generated valid level. `cheap` keeps xz/bzip2 levels low.
pub fn gen_codec(c: &mut Choices, cheap: bool) -> Codec {
    match c.weighted(&[4, 4, 3, 2, 2, 2]) {
        0 => Codec::Null,
        1 => Codec::Deflate(DeflateSettings::new(DEFLATE_LEVELS[c.pick(DEFLATE_LEVELS.len())])),
        2 => Codec::Snappy,
        3 => Codec::Zstandard(ZstandardSettings::new(if cheap { c.pick(6) as u8 } else { c.pick(23) as u8 })),
        4 => Codec::Bzip2(Bzip2Settings::new(1 + c.pick(9) as u8)),
        _ => Codec::Xz(XzSettings::new(if cheap { c.pick(4) as u8 } else { c.pick(10) as u8 })),
    }
}

pub fn codec_name(codec: &Codec) -> String {
    match codec {
        Codec::Null => "null".into(),
        Codec::Deflate(s) => format!("deflate/{}", s.compression_level()),
        Codec::Snappy => "snappy".into(),
        Codec::Zstandard(s) => format!("zstandard/{}", s.compression_level),
        Codec::Bzip2(s) => format!("bzip2/{}", s.compression_level),
        Codec::Xz(s) => format!("xz/{}", s.compression_level),
    }
}

pub fn codec_kind(codec: &Codec) -> &'static str {
    match codec {
        Codec::Null => "null",
        Codec::Deflate(_) => "deflate",
        Codec::Snappy => "snappy",
        Codec::Zstandard(_) => "zstandard",
        Codec::Bzip2(_) => "bzip2",
        Codec::Xz(_) => "xz",
    }
}
