//! Reference Parsing Canonical Form (the spec's seven rules applied to the schema's
//! JSON text, own namespace tracking) and CRC-64-AVRO computed bit by bit.

use crate::json::{render_str, Js};

const PRIMS: &[&str] = &["null", "boolean", "int", "long", "float", "double", "bytes", "string"];

fn fullname(name: &str, namespace: Option<&str>, enclosing: &str) -> (String, String) {
    // returns (fullname, namespace of that name)
    if let Some(i) = name.rfind('.') {
        (name.to_string(), name[..i].to_string())
    } else {
        let ns = namespace.unwrap_or(enclosing);
        if ns.is_empty() { (name.to_string(), String::new()) } else { (format!("{ns}.{name}"), ns.to_string()) }
    }
}

/// The library's known deviations from the specification's rules (known findings of C12),
/// reproduced so that a disagreement can be attributed to exactly these.
#[derive(Clone, Copy, Default, Debug)]
pub struct Dev {
    /// a recognised logical type keeps the object form {"type": base} and decimals keep precision/scale
    pub logical: bool,
    /// fields keep their "order" attribute
    pub order: bool,
}

/// Canonical form of a schema given as JSON. Err on things that are not schemas.
pub fn canonical(js: &Js) -> Result<String, String> {
    canonical_dev(js, Dev::default())
}

pub fn canonical_dev(js: &Js, dev: Dev) -> Result<String, String> {
    let mut out = String::new();
    canon(js, "", &mut out, dev)?;
    Ok(out)
}

/// Is the logicalType attribute of this object one the library applies to this base type?
fn applied_logical(js: &Js, base: &str) -> Option<String> {
    let l = js.get("logicalType")?.as_str()?;
    let ok = match (l, base) {
        ("date" | "time-millis", "int") => true,
        ("time-micros" | "timestamp-millis" | "timestamp-micros" | "timestamp-nanos" | "local-timestamp-millis" | "local-timestamp-micros" | "local-timestamp-nanos", "long") => true,
        ("decimal", "bytes" | "fixed") => {
            let p = js.get("precision").and_then(|p| p.as_i128());
            let s = match js.get("scale") {
                None => Some(0),
                Some(x) => x.as_i128(),
            };
            matches!((p, s), (Some(p), Some(s)) if p >= 1 && s >= 0 && s <= p)
        }
        ("big-decimal", "bytes") => true,
        ("uuid", "string" | "bytes") => true,
        ("uuid", "fixed") => js.get("size").and_then(|s| s.as_i128()) == Some(16),
        ("duration", "fixed") => js.get("size").and_then(|s| s.as_i128()) == Some(12),
        _ => false,
    };
    if ok { Some(l.to_string()) } else { None }
}

fn decimal_suffix(js: &Js, out: &mut String) {
    let p = js.get("precision").and_then(|p| p.as_i128()).unwrap_or(0);
    let s = js.get("scale").and_then(|p| p.as_i128()).unwrap_or(0);
    out.push_str(&format!(",\"precision\":{p},\"scale\":{s}"));
}

fn canon(js: &Js, enclosing: &str, out: &mut String, dev: Dev) -> Result<(), String> {
    match js {
        Js::Str(s) => {
            if PRIMS.contains(&s.as_str()) {
                render_str(s, out);
            } else {
                // [FULLNAMES] a reference
                let (full, _) = fullname(s, None, enclosing);
                render_str(&full, out);
            }
            Ok(())
        }
        Js::Arr(branches) => {
            out.push('[');
            for (i, b) in branches.iter().enumerate() {
                if i > 0 {
                    out.push(',');
                }
                canon(b, enclosing, out, dev)?;
            }
            out.push(']');
            Ok(())
        }
        Js::Obj(_) => {
            let ty = js.get("type").ok_or("object without type")?;
            match ty {
                Js::Str(t) if PRIMS.contains(&t.as_str()) => {
                    if dev.logical {
                        if let Some(l) = applied_logical(js, t) {
                            out.push_str("{\"type\":");
                            render_str(t, out);
                            if l == "decimal" {
                                decimal_suffix(js, out);
                            }
                            out.push('}');
                            return Ok(());
                        }
                    }
                    // [STRIP] leaves only "type"; [PRIMITIVES] reduces to the simple form
                    render_str(t, out);
                    Ok(())
                }
                Js::Str(t) if t == "array" => {
                    out.push_str("{\"type\":\"array\",\"items\":");
                    canon(js.get("items").ok_or("array without items")?, enclosing, out, dev)?;
                    out.push('}');
                    Ok(())
                }
                Js::Str(t) if t == "map" => {
                    out.push_str("{\"type\":\"map\",\"values\":");
                    canon(js.get("values").ok_or("map without values")?, enclosing, out, dev)?;
                    out.push('}');
                    Ok(())
                }
                Js::Str(t) if t == "record" || t == "error" || t == "enum" || t == "fixed" => {
                    let name = js.get("name").and_then(|n| n.as_str()).ok_or("named type without name")?;
                    let ns_attr = js.get("namespace").and_then(|n| n.as_str());
                    let (full, ns) = fullname(name, ns_attr, enclosing);
                    // [ORDER] name, type, fields, symbols, items, values, size
                    out.push_str("{\"name\":");
                    render_str(&full, out);
                    out.push_str(",\"type\":");
                    render_str(t, out);
                    match t.as_str() {
                        "record" | "error" => {
                            out.push_str(",\"fields\":[");
                            let fields = js.get("fields").and_then(|f| f.as_arr()).ok_or("record without fields")?;
                            for (i, f) in fields.iter().enumerate() {
                                if i > 0 {
                                    out.push(',');
                                }
                                out.push_str("{\"name\":");
                                render_str(f.get("name").and_then(|n| n.as_str()).ok_or("field without name")?, out);
                                out.push_str(",\"type\":");
                                canon(f.get("type").ok_or("field without type")?, &ns, out, dev)?;
                                if dev.order {
                                    if let Some(o) = f.get("order").and_then(|o| o.as_str()) {
                                        out.push_str(",\"order\":");
                                        render_str(o, out);
                                    }
                                }
                                out.push('}');
                            }
                            out.push(']');
                        }
                        "enum" => {
                            out.push_str(",\"symbols\":[");
                            let symbols = js.get("symbols").and_then(|f| f.as_arr()).ok_or("enum without symbols")?;
                            for (i, s) in symbols.iter().enumerate() {
                                if i > 0 {
                                    out.push(',');
                                }
                                render_str(s.as_str().ok_or("symbol not a string")?, out);
                            }
                            out.push(']');
                        }
                        _ => {
                            // [INTEGERS] no quotes, no leading zeros
                            let size = match js.get("size") {
                                Some(Js::Num(n)) => n.parse::<u128>().map_err(|_| "size not a non-negative integer")?,
                                Some(Js::Str(s)) => s.parse::<u128>().map_err(|_| "size not an integer")?,
                                _ => return Err("fixed without size".into()),
                            };
                            out.push_str(",\"size\":");
                            out.push_str(&size.to_string());
                            if dev.logical && applied_logical(js, "fixed").as_deref() == Some("decimal") {
                                decimal_suffix(js, out);
                            }
                        }
                    }
                    out.push('}');
                    Ok(())
                }
                Js::Str(other) => {
                    // {"type": "SomeName"}: a reference in object form
                    let (full, _) = fullname(other, None, enclosing);
                    render_str(&full, out);
                    Ok(())
                }
                nested => canon(nested, enclosing, out, dev),
            }
        }
        _ => Err("not a schema".into()),
    }
}

pub const EMPTY64: u64 = 0xc15d_213a_a4d7_a795;

/// CRC-64-AVRO, one bit at a time (no table).
pub fn crc64_avro(data: &[u8]) -> u64 {
    let mut fp = EMPTY64;
    for b in data {
        fp ^= *b as u64;
        for _ in 0..8 {
            let low = fp & 1;
            fp >>= 1;
            if low == 1 {
                fp ^= EMPTY64;
            }
        }
    }
    fp
}

/// The 10-byte single-object header for a schema text.
pub fn single_object_header(schema_js: &Js) -> Result<Vec<u8>, String> {
    let c = canonical(schema_js)?;
    let mut h = vec![0xC3, 0x01];
    h.extend_from_slice(&crc64_avro(c.as_bytes()).to_le_bytes());
    Ok(h)
}

pub fn self_test() -> Result<(), String> {
    // published vectors (Avro's schema-tests.txt)
    let vectors: &[(&str, &str, i64)] = &[
        ("\"int\"", "\"int\"", 8247732601305521295),
        ("{\"type\":\"int\"}", "\"int\"", 8247732601305521295),
        ("{\"type\":\"fixed\",\"name\":\"foo\",\"size\":15}", "{\"name\":\"foo\",\"type\":\"fixed\",\"size\":15}", 1756455273707447556),
    ];
    for (text, pcf, fp) in vectors {
        let js = crate::json::parse_strict(text).map_err(|e| format!("{e:?}"))?;
        let c = canonical(&js)?;
        if c != *pcf {
            return Err(format!("pcf of {text}: {c}"));
        }
        if crc64_avro(c.as_bytes()) as i64 != *fp {
            return Err(format!("fingerprint of {text}: {}", crc64_avro(c.as_bytes()) as i64));
        }
    }
    if crc64_avro(b"") != EMPTY64 {
        return Err("empty fingerprint".into());
    }
    // spec example for canonical form
    let text = r#"{"type":"record","name":"R","namespace":"x.y","doc":"d","aliases":["Q"],"fields":[{"name":"f","type":{"type":"enum","name":"E","symbols":["A"],"doc":"e"},"default":"A","order":"ignore"},{"name":"g","type":["null",{"type":"array","items":"E"}]},{"name":"h","type":{"type":"fixed","name":"other.F","size":4}}]}"#;
    let want = r#"{"name":"x.y.R","type":"record","fields":[{"name":"f","type":{"name":"x.y.E","type":"enum","symbols":["A"]}},{"name":"g","type":["null",{"type":"array","items":"x.y.E"}]},{"name":"h","type":{"name":"other.F","type":"fixed","size":4}}]}"#;
    let js = crate::json::parse_strict(text).map_err(|e| format!("{e:?}"))?;
    if canonical(&js)? != want {
        return Err(format!("pcf example: {}", canonical(&js)?));
    }
    Ok(())
}
