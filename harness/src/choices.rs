//! Choice-sequence source. All structured generators draw from this; under
//! proptest the backing store is a generated Vec<u64> (so shrinking the vector
//! shrinks the structure), under libFuzzer it is the fuzzer's bytes.
//! Every draw is mapped monotonically so that a smaller number is a simpler
//! alternative; an exhausted source yields 0.

#[derive(Clone)]
pub struct Choices<'a> {
    data: &'a [u64],
    pos: usize,
}

impl<'a> Choices<'a> {
    pub fn new(data: &'a [u64]) -> Self {
        Choices { data, pos: 0 }
    }
    pub fn consumed(&self) -> usize {
        self.pos
    }
    pub fn exhausted(&self) -> bool {
        self.pos >= self.data.len()
    }
    #[inline]
    pub fn raw(&mut self) -> u64 {
        let v = self.data.get(self.pos).copied().unwrap_or(0);
        self.pos += 1;
        v
    }
    /// uniform in 0..n (n>=1), monotone in the raw draw
    #[inline]
    pub fn pick(&mut self, n: usize) -> usize {
        debug_assert!(n >= 1);
        ((self.raw() as u128 * n as u128) >> 64) as usize
    }
    pub fn bool(&mut self) -> bool {
        self.pick(2) == 1
    }
    /// true with probability num/den
    pub fn chance(&mut self, num: usize, den: usize) -> bool {
        self.pick(den) >= den - num
    }
    pub fn int_in(&mut self, lo: i128, hi: i128) -> i128 {
        debug_assert!(lo <= hi);
        let span = (hi - lo) as u128 + 1;
        if span > u64::MAX as u128 {
            // two draws
            let a = self.raw() as u128;
            let b = self.raw() as u128;
            let x = (a << 64) | b;
            lo + (x % span) as i128
        } else {
            lo + ((self.raw() as u128 * span) >> 64) as i128
        }
    }
    pub fn weighted(&mut self, w: &[u32]) -> usize {
        let total: u64 = w.iter().map(|x| *x as u64).sum();
        let mut x = ((self.raw() as u128 * total as u128) >> 64) as u64;
        for (i, wi) in w.iter().enumerate() {
            if x < *wi as u64 {
                return i;
            }
            x -= *wi as u64;
        }
        w.len() - 1
    }
    pub fn bytes(&mut self, n: usize) -> Vec<u8> {
        let mut out = Vec::with_capacity(n);
        while out.len() < n {
            let r = self.raw().to_le_bytes();
            let take = (n - out.len()).min(8);
            out.extend_from_slice(&r[..take]);
        }
        out
    }
    pub fn choose<'b, T>(&mut self, items: &'b [T]) -> &'b T {
        &items[self.pick(items.len())]
    }
}

/// Decode libFuzzer bytes into a u64 choice vector (8 bytes per choice, LE).
pub fn bytes_to_choices(data: &[u8]) -> Vec<u64> {
    data.chunks(8)
        .map(|c| {
            let mut b = [0u8; 8];
            b[..c.len()].copy_from_slice(c);
            u64::from_le_bytes(b)
        })
        .collect()
}

/// splitmix64, used only to derive per-shard seeds from VERIF_SEED.
pub fn derive_seed(seed: u64, phase: &str, shard: u64) -> u64 {
    let mut h: u64 = seed ^ 0x9E37_79B9_7F4A_7C15;
    for b in phase.bytes() {
        h = mix(h ^ b as u64);
    }
    mix(h ^ shard.wrapping_mul(0xD6E8_FEB8_6659_FD93))
}

fn mix(mut z: u64) -> u64 {
    z = z.wrapping_add(0x9E37_79B9_7F4A_7C15);
    z = (z ^ (z >> 30)).wrapping_mul(0xBF58_476D_1CE4_E5B9);
    z = (z ^ (z >> 27)).wrapping_mul(0x94D0_49BB_1331_11EB);
    z ^ (z >> 31)
}

/// FNV-1a 64, for distinct-case hashing (deterministic across runs).
pub fn fnv(bytes: &[u8]) -> u64 {
    let mut h: u64 = 0xcbf2_9ce4_8422_2325;
    for b in bytes {
        h ^= *b as u64;
        h = h.wrapping_mul(0x0000_0100_0000_01B3);
    }
    h
}
