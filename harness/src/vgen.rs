//! Value generator: (Choices, schema) -> conforming canonical V. Edge-biased.

use crate::choices::Choices;
use crate::json::Js;
use crate::spec::*;
use num_bigint::BigInt;
use std::collections::BTreeMap;

#[derive(Clone, Debug)]
pub struct VgenCfg {
    pub max_depth: usize,
    pub max_items: usize,
    pub big_collections: bool,
    pub long_strings: bool,
    /// floats restricted to finite values exactly representable in short decimal text
    pub json_safe: bool,
    pub bigdec_scale: i64,
    /// unions always take branch 0 (JSON defaults)
    pub first_branch: bool,
    /// bytes/fixed/decimal/duration/uuid-bytes restricted to ASCII so that their JSON default is unambiguous
    pub ascii_bytes: bool,
}

impl VgenCfg {
    pub fn normal() -> Self {
        VgenCfg {
            max_depth: 6,
            max_items: 6,
            big_collections: true,
            long_strings: true,
            json_safe: false,
            bigdec_scale: 40,
            first_branch: false,
            ascii_bytes: false,
        }
    }
    pub fn small() -> Self {
        VgenCfg {
            max_depth: 4,
            max_items: 3,
            big_collections: false,
            long_strings: false,
            json_safe: false,
            bigdec_scale: 10,
            first_branch: false,
            ascii_bytes: false,
        }
    }
    pub fn for_defaults() -> Self {
        VgenCfg {
            max_depth: 3,
            max_items: 2,
            big_collections: false,
            long_strings: false,
            json_safe: true,
            bigdec_scale: 4,
            first_branch: true,
            ascii_bytes: true,
        }
    }
}

pub const INT_EDGES: &[i64] = &[
    0, 1, -1, 2, -2, 63, 64, -64, -65, 127, 128, 8191, 8192, -8192, -8193, 1 << 20, -(1 << 20), (1 << 20) - 1, 1 << 27,
    -(1 << 27), (1 << 27) - 1, i32::MAX as i64, i32::MIN as i64, i32::MAX as i64 - 1, i32::MIN as i64 + 1,
];
pub const LONG_EDGES: &[i64] = &[
    1 << 31, -(1 << 31) - 1, 1 << 34, -(1 << 34), (1 << 34) - 1, 1 << 41, -(1 << 41), (1 << 41) - 1, 1 << 48, -(1 << 48),
    (1 << 48) - 1, 1 << 55, -(1 << 55), (1 << 55) - 1, 1 << 62, -(1 << 62), (1 << 62) - 1, i64::MAX, i64::MIN,
    i64::MAX - 1, i64::MIN + 1,
];
pub const F32_EDGES: &[u32] = &[
    0x0000_0000, 0x8000_0000, 0x3f80_0000, 0xbf80_0000, 0x7f80_0000, 0xff80_0000, 0x7fc0_0000, 0xffc0_0000, 0x7fa0_0001,
    0x7fff_ffff, 0x0000_0001, 0x807f_ffff, 0x7f7f_ffff, 0x0080_0000,
];
pub const F64_EDGES: &[u64] = &[
    0x0000_0000_0000_0000,
    0x8000_0000_0000_0000,
    0x3ff0_0000_0000_0000,
    0xbff0_0000_0000_0000,
    0x7ff0_0000_0000_0000,
    0xfff0_0000_0000_0000,
    0x7ff8_0000_0000_0000,
    0xfff8_0000_0000_0000,
    0x7ff4_0000_0000_0001,
    0x7fff_ffff_ffff_ffff,
    0x0000_0000_0000_0001,
    0x800f_ffff_ffff_ffff,
    0x7fef_ffff_ffff_ffff,
    0x0010_0000_0000_0000,
];

pub fn gen_int(c: &mut Choices) -> i32 {
    match c.weighted(&[5, 2, 3]) {
        0 => INT_EDGES[c.pick(INT_EDGES.len())] as i32,
        1 => c.int_in(-200, 200) as i32,
        _ => c.int_in(i32::MIN as i128, i32::MAX as i128) as i32,
    }
}

pub fn gen_long(c: &mut Choices) -> i64 {
    match c.weighted(&[3, 4, 1, 3]) {
        0 => INT_EDGES[c.pick(INT_EDGES.len())],
        1 => LONG_EDGES[c.pick(LONG_EDGES.len())],
        2 => c.int_in(-200, 200) as i64,
        _ => c.raw() as i64,
    }
}

const STR_PIECES: &[&str] = &["", "a", "hello world", "\u{e9}", "\u{4e2d}\u{6587}", "\u{1F600}", "\0", "\"\\\n", " "];

pub fn gen_string(c: &mut Choices, cfg: &VgenCfg) -> String {
    if cfg.ascii_bytes {
        // defaults: plain ASCII (a later string->bytes promotion must not create non-ASCII byte defaults)
        let k = c.pick(4);
        return ["", "a", "hello world", " ", "x y", "0"].iter().cycle().skip(c.pick(6)).take(k).copied().collect();
    }
    if cfg.long_strings && c.chance(1, 12) {
        let len = [63usize, 64, 65, 8191, 8192, 300][c.pick(6)];
        let ch = ['x', 'y', '0'][c.pick(3)];
        return std::iter::repeat(ch).take(len).collect();
    }
    let k = c.weighted(&[2, 5, 3, 1]);
    let mut s = String::new();
    for _ in 0..k {
        s.push_str(STR_PIECES[c.pick(STR_PIECES.len())]);
    }
    s
}

pub fn gen_bytes(c: &mut Choices, cfg: &VgenCfg) -> Vec<u8> {
    if cfg.long_strings && c.chance(1, 12) {
        let len = [63usize, 64, 65, 8191, 8192, 300][c.pick(6)];
        let b = c.pick(256) as u8;
        return vec![b; len];
    }
    let len = c.weighted(&[2, 3, 3, 2, 1, 1, 1, 1, 1]);
    if c.chance(1, 3) {
        [0x00u8, 0xff, 0x80, 0x7f, 0xc3, 0x28, 0x01, 0xfe].iter().cycle().skip(c.pick(8)).take(len).copied().collect()
    } else {
        c.bytes(len)
    }
}

fn gen_key(c: &mut Choices, i: usize) -> String {
    // unique by construction: index suffix
    let stem = ["k", "", "key with space", "\u{e9}", "avro.", "a"][c.pick(6)];
    format!("{stem}{i}")
}

fn max_unscaled(precision: usize) -> BigInt {
    BigInt::from(10).pow(precision as u32) - 1
}

fn gen_decimal(c: &mut Choices, precision: usize, width: Option<usize>) -> BigInt {
    let mut max = max_unscaled(precision);
    if let Some(w) = width {
        // must fit in w bytes two's complement (positive side bound; negative side is one larger)
        let lim = (BigInt::from(1) << (8 * w - 1)) - 1;
        if lim < max {
            max = lim;
        }
    }
    let v = match c.weighted(&[2, 2, 2, 3]) {
        0 => BigInt::from(0),
        1 => max.clone(),
        2 => BigInt::from(c.int_in(0, 300)),
        _ => {
            let bytes = c.bytes(((precision * 10 / 24) + 1).min(24));
            BigInt::from_bytes_be(num_bigint::Sign::Plus, &bytes) % (&max + 1)
        }
    };
    let v = if v > max { max } else { v };
    if c.bool() { -v } else { v }
}

pub struct Ctx<'a> {
    pub env: &'a Env,
    pub md: &'a BTreeMap<String, usize>,
    pub cfg: &'a VgenCfg,
}

pub fn gen_value(c: &mut Choices, node: &SNode, env: &Env) -> V {
    let md = min_depths(env);
    gen_value_cfg(c, node, env, &md, &VgenCfg::normal())
}

pub fn gen_value_cfg(c: &mut Choices, node: &SNode, env: &Env, md: &BTreeMap<String, usize>, cfg: &VgenCfg) -> V {
    let ctx = Ctx { env, md, cfg };
    gen_v(c, node, &ctx, 0)
}

fn gen_v(c: &mut Choices, node: &SNode, ctx: &Ctx, depth: usize) -> V {
    let cfg = ctx.cfg;
    let over = depth >= cfg.max_depth;
    if let Some(l) = &node.logical {
        return match l {
            Logical::Date | Logical::TimeMillis => V::Int(gen_int(c)),
            Logical::TimeMicros
            | Logical::TimestampMillis
            | Logical::TimestampMicros
            | Logical::TimestampNanos
            | Logical::LocalTimestampMillis
            | Logical::LocalTimestampMicros
            | Logical::LocalTimestampNanos => V::Long(gen_long(c)),
            Logical::Decimal { precision, .. } => match &node.ty {
                SType::Fixed(_, size) => V::Decimal(gen_decimal(c, *precision, Some(*size))),
                _ => V::Decimal(gen_decimal(c, *precision, None)),
            },
            Logical::BigDecimal => {
                let prec = 1 + c.pick(30);
                let unscaled = gen_decimal(c, prec, None);
                let s = cfg.bigdec_scale;
                let scale = match c.weighted(&[3, 3, 2]) {
                    0 => 0,
                    1 => c.int_in(0, s as i128) as i64,
                    _ => c.int_in(-(s as i128), s as i128) as i64,
                };
                V::BigDecimal(unscaled, scale)
            }
            Logical::Uuid => {
                let mut u = [0u8; 16];
                match c.weighted(&[1, 1, 4]) {
                    0 => {}
                    1 => u = [0xff; 16],
                    _ => u.copy_from_slice(&c.bytes(16)),
                }
                V::Uuid(u)
            }
            Logical::Duration => {
                let f = |c: &mut Choices| -> u32 {
                    match c.weighted(&[2, 2, 3]) {
                        0 => 0,
                        1 => u32::MAX,
                        _ => c.raw() as u32,
                    }
                };
                V::Duration(f(c), f(c), f(c))
            }
        };
    }
    match &node.ty {
        SType::Null => V::Null,
        SType::Boolean => V::Bool(c.bool()),
        SType::Int => V::Int(gen_int(c)),
        SType::Long => V::Long(gen_long(c)),
        SType::Float => {
            if cfg.json_safe {
                V::Float(([0.0f32, 1.0, -1.5, 0.25, 1024.0, -3.0][c.pick(6)]).to_bits())
            } else if c.bool() {
                V::Float(F32_EDGES[c.pick(F32_EDGES.len())])
            } else {
                V::Float(c.raw() as u32)
            }
        }
        SType::Double => {
            if cfg.json_safe {
                V::Double(([0.0f64, 1.0, -1.5, 0.25, 1024.0, -3.0][c.pick(6)]).to_bits())
            } else if c.bool() {
                V::Double(F64_EDGES[c.pick(F64_EDGES.len())])
            } else {
                V::Double(c.raw())
            }
        }
        SType::Bytes => {
            let mut b = gen_bytes(c, cfg);
            if cfg.ascii_bytes {
                b.iter_mut().for_each(|x| *x &= 0x7f);
            }
            V::Bytes(b)
        }
        SType::String => V::Str(gen_string(c, cfg)),
        SType::Fixed(_, size) => {
            let mut b = if c.chance(1, 4) { vec![[0u8, 0xff, 0x80][c.pick(3)]; *size] } else { c.bytes(*size) };
            if cfg.ascii_bytes {
                b.iter_mut().for_each(|x| *x &= 0x7f);
            }
            V::Fixed(b)
        }
        SType::Enum(_, symbols, _) => V::Enum(c.pick(symbols.len())),
        SType::Array(items) => {
            let n = collection_len(c, cfg, over, depth);
            V::Array((0..n).map(|_| gen_v(c, items, ctx, depth + 1)).collect())
        }
        SType::Map(values) => {
            let n = collection_len(c, cfg, over, depth);
            V::Map((0..n).map(|i| (gen_key(c, i), gen_v(c, values, ctx, depth + 1))).collect())
        }
        SType::Union(branches) => {
            let idx = if cfg.first_branch {
                0
            } else if over {
                // the branch needing the least nesting
                let mut best = 0;
                let mut bd = usize::MAX;
                for (i, b) in branches.iter().enumerate() {
                    let d = min_depth(b, ctx.md);
                    if d < bd {
                        bd = d;
                        best = i;
                    }
                }
                best
            } else {
                c.pick(branches.len())
            };
            V::Union(idx, Box::new(gen_v(c, &branches[idx], ctx, depth + 1)))
        }
        SType::Record(_, fields) => V::Record(fields.iter().map(|f| gen_v(c, &f.node, ctx, depth + 1)).collect()),
        SType::Ref(_) => gen_v(c, deref(node, ctx.env), ctx, depth),
    }
}

fn collection_len(c: &mut Choices, cfg: &VgenCfg, over: bool, depth: usize) -> usize {
    if over {
        return 0;
    }
    if cfg.big_collections && depth <= 1 && c.chance(1, 25) {
        return [64usize, 65, 100, 200][c.pick(4)];
    }
    match c.weighted(&[3, 4, 4]) {
        0 => 0,
        1 => 1,
        _ => 1 + c.pick(cfg.max_items),
    }
}

/// Does the value exercise something beyond the trivial (see DESIGN C01 non-trivial rule)?
pub fn nontrivial(node: &SNode, v: &V, env: &Env) -> bool {
    fn walk(node: &SNode, v: &V, env: &Env, depth: usize) -> bool {
        let node = deref(node, env);
        if node.logical.is_some() {
            return true;
        }
        match (&node.ty, v) {
            (_, V::Int(i)) => !(-64..64).contains(i),
            (_, V::Long(i)) => !(-64..64).contains(i),
            (_, V::Str(s)) => !s.is_ascii() || s.len() >= 64,
            (_, V::Bytes(b)) => b.len() >= 64,
            (SType::Union(bs), V::Union(i, inner)) => *i > 0 || walk(&bs[*i], inner, env, depth + 1),
            (SType::Array(items), V::Array(a)) => !a.is_empty() || a.iter().any(|x| walk(items, x, env, depth + 1)),
            (SType::Map(_), V::Map(m)) => !m.is_empty(),
            (SType::Record(_, fields), V::Record(r)) => {
                depth >= 2 || fields.iter().zip(r).any(|(f, x)| matches!(f.node.ty, SType::Ref(_)) || walk(&f.node, x, env, depth + 1))
            }
            _ => false,
        }
    }
    walk(node, v, env, 0)
}

/// ISO-8859-1 string of the bytes; None if a byte >= 0x80 occurs (the library reads
/// default strings as UTF-8, a known finding probed separately in C11/C08).
fn latin1(bytes: &[u8]) -> Option<String> {
    if bytes.iter().any(|b| *b >= 0x80) {
        return None;
    }
    Some(bytes.iter().map(|b| *b as char).collect())
}

fn f_to_js(x: f64) -> Option<Js> {
    if !x.is_finite() {
        return None;
    }
    if x == x.trunc() && x.abs() < 1e15 {
        Some(Js::Num(format!("{:.1}", x)))
    } else {
        Some(Js::Num(format!("{x}")))
    }
}

/// Spec JSON encoding of a default value. None if not expressible (NaN etc.).
pub fn default_json(node: &SNode, v: &V, env: &Env) -> Option<Js> {
    let node = deref(node, env);
    Some(match (&node.ty, v) {
        (_, V::Null) => Js::Null,
        (_, V::Bool(b)) => Js::Bool(*b),
        (_, V::Int(i)) => Js::int(*i as i128),
        (_, V::Long(i)) => Js::int(*i as i128),
        (_, V::Float(b)) => f_to_js(f32::from_bits(*b) as f64)?,
        (_, V::Double(b)) => f_to_js(f64::from_bits(*b))?,
        (_, V::Bytes(b)) => Js::Str(latin1(b)?),
        (_, V::Fixed(b)) => Js::Str(latin1(b)?),
        (_, V::Str(s)) => Js::Str(s.clone()),
        (SType::Enum(_, symbols, _), V::Enum(i)) => Js::Str(symbols[*i].clone()),
        (SType::Array(items), V::Array(a)) => {
            Js::Arr(a.iter().map(|x| default_json(items, x, env)).collect::<Option<Vec<_>>>()?)
        }
        (SType::Map(values), V::Map(m)) => Js::Obj(
            m.iter()
                .map(|(k, x)| Some((k.clone(), default_json(values, x, env)?)))
                .collect::<Option<Vec<_>>>()?,
        ),
        (SType::Record(_, fields), V::Record(r)) => Js::Obj(
            fields
                .iter()
                .zip(r)
                .map(|(f, x)| Some((f.name.clone(), default_json(&f.node, x, env)?)))
                .collect::<Option<Vec<_>>>()?,
        ),
        (SType::Union(bs), V::Union(i, inner)) => {
            if *i != 0 {
                return None;
            }
            default_json(&bs[0], inner, env)?
        }
        (_, V::Uuid(u)) => match &node.ty {
            SType::String => Js::Str(uuid_text(u)),
            // the library refuses string defaults for uuid-on-bytes (known finding, probed in C11)
            SType::Bytes => return None,
            _ => Js::Str(latin1(u)?),
        },
        (_, V::Decimal(d)) => match &node.ty {
            SType::Fixed(_, size) => Js::Str(latin1(&crate::refbin::twos_complement(d, Some(*size))?)?),
            _ => Js::Str(latin1(&crate::refbin::twos_complement(d, None)?)?),
        },
        (_, V::BigDecimal(..)) => return None,
        // the library refuses string defaults for duration (known finding, probed in C11)
        (_, V::Duration(..)) => return None,
        _ => return None,
    })
}

pub fn uuid_text(u: &[u8; 16]) -> String {
    let h = crate::json::hex(u);
    format!("{}-{}-{}-{}-{}", &h[0..8], &h[8..12], &h[12..16], &h[16..20], &h[20..32])
}

