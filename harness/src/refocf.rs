//! Reference object-container-file reader/writer, from the specification text.

use crate::refbin::{self, Cur, DecErr, Layout, LayoutStats};
use crate::spec::*;

pub const MAGIC: [u8; 4] = [b'O', b'b', b'j', 1];

#[derive(Debug, Clone)]
pub struct OcfBlock {
    pub count: i64,
    pub size: i64,
    /// payload as stored (compressed)
    pub payload: Vec<u8>,
    pub start: usize,
    /// one past the block's trailing marker
    pub end: usize,
}

#[derive(Debug, Clone)]
pub struct OcfFile {
    pub meta: Vec<(String, Vec<u8>)>,
    pub marker: [u8; 16],
    pub header_end: usize,
    pub blocks: Vec<OcfBlock>,
}

impl OcfFile {
    pub fn meta_get(&self, key: &str) -> Option<&[u8]> {
        self.meta.iter().find(|(k, _)| k == key).map(|(_, v)| v.as_slice())
    }
}

fn meta_schema() -> SNode {
    SNode::prim(SType::Map(Box::new(SNode::prim(SType::Bytes))))
}

/// Strict read of a complete file.
pub fn read(bytes: &[u8]) -> Result<OcfFile, String> {
    if bytes.len() < 4 || bytes[..4] != MAGIC {
        return Err("magic".into());
    }
    let env = Env::new();
    let (meta_v, used) = refbin::decode(&meta_schema(), &env, &bytes[4..]).map_err(|e| format!("metadata map: {e:?}"))?;
    let V::Map(entries) = meta_v else {
        return Err("metadata not a map".into());
    };
    let meta: Vec<(String, Vec<u8>)> = entries
        .into_iter()
        .map(|(k, v)| match v {
            V::Bytes(b) => (k, b),
            _ => unreachable!(),
        })
        .collect();
    let mut pos = 4 + used;
    if bytes.len() < pos + 16 {
        return Err("header marker truncated".into());
    }
    let mut marker = [0u8; 16];
    marker.copy_from_slice(&bytes[pos..pos + 16]);
    pos += 16;
    let header_end = pos;
    let mut blocks = vec![];
    while pos < bytes.len() {
        let start = pos;
        let mut cur = Cur::new(&bytes[pos..]);
        let count = cur.long().map_err(|e| format!("block count at {pos}: {e:?}"))?;
        let size = cur.long().map_err(|e| format!("block size at {pos}: {e:?}"))?;
        if count < 0 || size < 0 {
            return Err(format!("negative block count/size at {pos}: {count}/{size}"));
        }
        let payload = cur.take(size as usize).map_err(|e: DecErr| format!("block payload at {pos}: {e:?}"))?.to_vec();
        let m = cur.take(16).map_err(|e| format!("block marker at {pos}: {e:?}"))?;
        if m != marker {
            return Err(format!("block marker mismatch at {pos}"));
        }
        pos += cur.pos;
        blocks.push(OcfBlock { count, size, payload, start, end: pos });
    }
    Ok(OcfFile { meta, marker, header_end, blocks })
}

/// Header bytes: magic, metadata map in the given layout, marker.
pub fn write_header(meta: &[(String, Vec<u8>)], layout: &mut Layout, marker: &[u8; 16], stats: &mut LayoutStats) -> Vec<u8> {
    let mut out = MAGIC.to_vec();
    let v = V::Map(meta.iter().map(|(k, b)| (k.clone(), V::Bytes(b.clone()))).collect());
    out.extend_from_slice(&refbin::encode(&meta_schema(), &v, &Env::new(), layout, stats));
    out.extend_from_slice(marker);
    out
}

pub fn write_block(count: usize, stored_payload: &[u8], marker: &[u8; 16]) -> Vec<u8> {
    let mut out = vec![];
    refbin::put_long(count as i64, &mut out);
    refbin::put_long(stored_payload.len() as i64, &mut out);
    out.extend_from_slice(stored_payload);
    out.extend_from_slice(marker);
    out
}
