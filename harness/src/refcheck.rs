//! Checks over the library's parsed `Schema`: a complete structural dump (deep equality
//! = equality of dumps), a well-formedness walker (spec rules) and JSON-default conformance.

use crate::json::{from_serde, Js};
use apache_avro::schema::{DecimalSchema, FixedSchema, InnerDecimalSchema, Name, RecordField, UuidSchema};
use apache_avro::Schema;
use std::collections::{BTreeMap, BTreeSet};

fn name_js(n: &Name) -> Js {
    Js::obj(vec![("name", Js::str(n.name())), ("namespace", n.namespace().map(Js::str).unwrap_or(Js::Null))])
}

fn attrs_js(a: &BTreeMap<String, serde_json::Value>) -> Js {
    Js::Obj(a.iter().map(|(k, v)| (k.clone(), from_serde(v))).collect())
}

fn fixed_js(f: &FixedSchema) -> Vec<(&'static str, Js)> {
    vec![
        ("name", name_js(&f.name)),
        ("aliases", f.aliases.as_ref().map(|a| Js::Arr(a.iter().map(|x| Js::Str(x.fullname(None))).collect())).unwrap_or(Js::Null)),
        ("doc", f.doc.as_ref().map(|d| Js::str(d)).unwrap_or(Js::Null)),
        ("size", Js::int(f.size as i128)),
        ("attributes", attrs_js(&f.attributes)),
    ]
}

/// Everything a schema says, as a JSON tree (names, structure and order, logical types, sizes,
/// symbols, defaults, docs, aliases, attributes).
pub fn dump(s: &Schema) -> Js {
    match s {
        Schema::Null => Js::str("null"),
        Schema::Boolean => Js::str("boolean"),
        Schema::Int => Js::str("int"),
        Schema::Long => Js::str("long"),
        Schema::Float => Js::str("float"),
        Schema::Double => Js::str("double"),
        Schema::Bytes => Js::str("bytes"),
        Schema::String => Js::str("string"),
        Schema::Date => Js::str("date"),
        Schema::TimeMillis => Js::str("time-millis"),
        Schema::TimeMicros => Js::str("time-micros"),
        Schema::TimestampMillis => Js::str("timestamp-millis"),
        Schema::TimestampMicros => Js::str("timestamp-micros"),
        Schema::TimestampNanos => Js::str("timestamp-nanos"),
        Schema::LocalTimestampMillis => Js::str("local-timestamp-millis"),
        Schema::LocalTimestampMicros => Js::str("local-timestamp-micros"),
        Schema::LocalTimestampNanos => Js::str("local-timestamp-nanos"),
        Schema::BigDecimal => Js::str("big-decimal"),
        Schema::Array(a) => Js::obj(vec![("kind", Js::str("array")), ("items", dump(&a.items)), ("attributes", attrs_js(&a.attributes))]),
        Schema::Map(m) => Js::obj(vec![("kind", Js::str("map")), ("values", dump(&m.types)), ("attributes", attrs_js(&m.attributes))]),
        Schema::Union(u) => Js::obj(vec![("kind", Js::str("union")), ("branches", Js::Arr(u.variants().iter().map(dump).collect()))]),
        Schema::Record(r) => Js::obj(vec![
            ("kind", Js::str("record")),
            ("name", name_js(&r.name)),
            ("aliases", r.aliases.as_ref().map(|a| Js::Arr(a.iter().map(|x| Js::Str(x.fullname(None))).collect())).unwrap_or(Js::Null)),
            ("doc", r.doc.as_ref().map(|d| Js::str(d)).unwrap_or(Js::Null)),
            ("fields", Js::Arr(r.fields.iter().map(field_js).collect())),
            ("lookup", Js::Obj(r.lookup.iter().map(|(k, v)| (k.clone(), Js::int(*v as i128))).collect())),
            ("attributes", attrs_js(&r.attributes)),
        ]),
        Schema::Enum(e) => Js::obj(vec![
            ("kind", Js::str("enum")),
            ("name", name_js(&e.name)),
            ("aliases", e.aliases.as_ref().map(|a| Js::Arr(a.iter().map(|x| Js::Str(x.fullname(None))).collect())).unwrap_or(Js::Null)),
            ("doc", e.doc.as_ref().map(|d| Js::str(d)).unwrap_or(Js::Null)),
            ("symbols", Js::Arr(e.symbols.iter().map(|s| Js::str(s)).collect())),
            ("default", e.default.as_ref().map(|d| Js::str(d)).unwrap_or(Js::Null)),
            ("attributes", attrs_js(&e.attributes)),
        ]),
        Schema::Fixed(f) => {
            let mut v = vec![("kind", Js::str("fixed"))];
            v.extend(fixed_js(f));
            Js::obj(v)
        }
        Schema::Decimal(DecimalSchema { precision, scale, inner }) => Js::obj(vec![
            ("kind", Js::str("decimal")),
            ("precision", Js::int(*precision as i128)),
            ("scale", Js::int(*scale as i128)),
            (
                "inner",
                match inner {
                    InnerDecimalSchema::Bytes => Js::str("bytes"),
                    InnerDecimalSchema::Fixed(f) => Js::obj(fixed_js(f)),
                },
            ),
        ]),
        Schema::Uuid(u) => Js::obj(vec![
            ("kind", Js::str("uuid")),
            (
                "inner",
                match u {
                    UuidSchema::Bytes => Js::str("bytes"),
                    UuidSchema::String => Js::str("string"),
                    UuidSchema::Fixed(f) => Js::obj(fixed_js(f)),
                },
            ),
        ]),
        Schema::Duration(f) => {
            let mut v = vec![("kind", Js::str("duration"))];
            v.extend(fixed_js(f));
            Js::obj(v)
        }
        Schema::Ref { name } => Js::obj(vec![("kind", Js::str("ref")), ("name", name_js(name))]),
    }
}

fn field_js(f: &RecordField) -> Js {
    Js::obj(vec![
        ("name", Js::str(&f.name)),
        ("doc", f.doc.as_ref().map(|d| Js::str(d)).unwrap_or(Js::Null)),
        ("aliases", Js::Arr(f.aliases.iter().map(|a| Js::str(a)).collect())),
        ("default", f.default.as_ref().map(from_serde).unwrap_or(Js::str("<<no default>>"))),
        ("schema", dump(&f.schema)),
        ("custom_attributes", attrs_js(&f.custom_attributes)),
    ])
}

/// First difference between two dumps, as a path.
pub fn first_diff(a: &Js, b: &Js, path: &str) -> Option<String> {
    match (a, b) {
        (Js::Obj(x), Js::Obj(y)) => {
            if x.len() != y.len() {
                return Some(format!("{path}: {} vs {} keys", x.len(), y.len()));
            }
            for ((k1, v1), (k2, v2)) in x.iter().zip(y) {
                if k1 != k2 {
                    return Some(format!("{path}: key {k1} vs {k2}"));
                }
                if let Some(d) = first_diff(v1, v2, &format!("{path}/{k1}")) {
                    return Some(d);
                }
            }
            None
        }
        (Js::Arr(x), Js::Arr(y)) => {
            if x.len() != y.len() {
                return Some(format!("{path}: {} vs {} items", x.len(), y.len()));
            }
            for (i, (v1, v2)) in x.iter().zip(y).enumerate() {
                if let Some(d) = first_diff(v1, v2, &format!("{path}[{i}]")) {
                    return Some(d);
                }
            }
            None
        }
        (x, y) => {
            if json_eq(x, y) {
                None
            } else {
                Some(format!("{path}: {} vs {}", x.render(), y.render()))
            }
        }
    }
}

fn json_eq(a: &Js, b: &Js) -> bool {
    match (a, b) {
        (Js::Num(x), Js::Num(y)) => x == y || (x.parse::<f64>().ok() == y.parse::<f64>().ok() && x.parse::<f64>().is_ok()),
        _ => a == b,
    }
}

// ---------------------------------------------------------------- well-formedness

fn is_name(s: &str) -> bool {
    let mut ch = s.chars();
    match ch.next() {
        Some(c) if c.is_ascii_alphabetic() || c == '_' => {}
        _ => return false,
    }
    ch.all(|c| c.is_ascii_alphanumeric() || c == '_')
}

fn is_namespace(s: &str) -> bool {
    s.is_empty() || s.split('.').all(is_name)
}

fn full(n: &Name, enclosing: Option<&str>) -> String {
    n.fullname(enclosing)
}

/// Base kind for the union duplicate rule.
fn union_kind(s: &Schema) -> Option<&'static str> {
    Some(match s {
        Schema::Null => "null",
        Schema::Boolean => "boolean",
        Schema::Int | Schema::Date | Schema::TimeMillis => "int",
        Schema::Long | Schema::TimeMicros | Schema::TimestampMillis | Schema::TimestampMicros | Schema::TimestampNanos | Schema::LocalTimestampMillis | Schema::LocalTimestampMicros | Schema::LocalTimestampNanos => "long",
        Schema::Float => "float",
        Schema::Double => "double",
        Schema::Bytes | Schema::BigDecimal | Schema::Decimal(DecimalSchema { inner: InnerDecimalSchema::Bytes, .. }) | Schema::Uuid(UuidSchema::Bytes) => "bytes",
        Schema::String | Schema::Uuid(UuidSchema::String) => "string",
        Schema::Array(_) => "array",
        Schema::Map(_) => "map",
        _ => return None,
    })
}

fn named_of(s: &Schema) -> Option<&Name> {
    match s {
        Schema::Record(r) => Some(&r.name),
        Schema::Enum(e) => Some(&e.name),
        Schema::Fixed(f) | Schema::Duration(f) | Schema::Uuid(UuidSchema::Fixed(f)) | Schema::Decimal(DecimalSchema { inner: InnerDecimalSchema::Fixed(f), .. }) => Some(&f.name),
        Schema::Ref { name } => Some(name),
        _ => None,
    }
}

#[derive(Debug, Clone)]
pub struct IllFormed {
    /// stable class, used in finding keys
    pub class: String,
    pub msg: String,
}

/// Walk a parsed schema and report every violation of the spec's well-formedness rules.
pub fn well_formed(root: &Schema) -> Vec<IllFormed> {
    let mut out = vec![];
    // pass 1: definitions
    let mut defs: BTreeMap<String, &Schema> = BTreeMap::new();
    fn collect<'a>(s: &'a Schema, enclosing: Option<&str>, defs: &mut BTreeMap<String, &'a Schema>, out: &mut Vec<IllFormed>) {
        match s {
            Schema::Array(a) => collect(&a.items, enclosing, defs, out),
            Schema::Map(m) => collect(&m.types, enclosing, defs, out),
            Schema::Union(u) => u.variants().iter().for_each(|b| collect(b, enclosing, defs, out)),
            Schema::Ref { .. } => {}
            other => {
                if let Some(n) = named_of(other) {
                    let f = full(n, enclosing);
                    if defs.insert(f.clone(), other).is_some() {
                        out.push(IllFormed { class: "duplicate-fullname".into(), msg: format!("full name {f} is defined twice") });
                    }
                    if !is_name(n.name()) {
                        out.push(IllFormed { class: "bad-name".into(), msg: format!("name {:?}", n.name()) });
                    }
                    let ns = n.namespace().or(enclosing).unwrap_or("");
                    if !is_namespace(ns) {
                        out.push(IllFormed { class: "bad-namespace".into(), msg: format!("namespace {ns:?}") });
                    }
                    if let Schema::Record(r) = other {
                        let ns_owned = n.namespace().or(enclosing).map(|s| s.to_string());
                        for f in &r.fields {
                            collect(&f.schema, ns_owned.as_deref(), defs, out);
                        }
                    }
                }
            }
        }
    }
    collect(root, None, &mut defs, &mut out);
    // pass 2: everything else
    fn walk(s: &Schema, enclosing: Option<&str>, defs: &BTreeMap<String, &Schema>, out: &mut Vec<IllFormed>) {
        match s {
            Schema::Array(a) => walk(&a.items, enclosing, defs, out),
            Schema::Map(m) => walk(&m.types, enclosing, defs, out),
            Schema::Union(u) => {
                let mut kinds = BTreeSet::new();
                let mut names = BTreeSet::new();
                for b in u.variants() {
                    if matches!(b, Schema::Union(_)) {
                        out.push(IllFormed { class: "nested-union".into(), msg: "union directly inside a union".into() });
                    }
                    if let Some(k) = union_kind(b) {
                        if !kinds.insert(k) {
                            out.push(IllFormed { class: "union-duplicate-kind".into(), msg: format!("two {k} branches") });
                        }
                    }
                    if let Some(n) = named_of(b) {
                        if !names.insert(full(n, enclosing)) {
                            out.push(IllFormed { class: "union-duplicate-name".into(), msg: format!("two branches named {}", full(n, enclosing)) });
                        }
                    }
                    walk(b, enclosing, defs, out);
                }
            }
            Schema::Ref { name } => {
                let f = full(name, enclosing);
                if !defs.contains_key(&f) {
                    out.push(IllFormed { class: "unresolved-reference".into(), msg: format!("reference {f} has no definition in this schema") });
                }
            }
            Schema::Enum(e) => {
                let mut seen = BTreeSet::new();
                for sym in &e.symbols {
                    if !is_name(sym) {
                        out.push(IllFormed { class: "bad-symbol".into(), msg: format!("symbol {sym:?}") });
                    }
                    if !seen.insert(sym) {
                        out.push(IllFormed { class: "duplicate-symbol".into(), msg: format!("symbol {sym:?} twice") });
                    }
                }
                if let Some(d) = &e.default {
                    if !e.symbols.contains(d) {
                        out.push(IllFormed { class: "enum-default-not-symbol".into(), msg: format!("default {d:?}") });
                    }
                }
            }
            Schema::Record(r) => {
                let ns_owned = r.name.namespace().or(enclosing).map(|s| s.to_string());
                let mut seen = BTreeSet::new();
                for f in &r.fields {
                    if !is_name(&f.name) {
                        out.push(IllFormed { class: "bad-field-name".into(), msg: format!("field {:?}", f.name) });
                    }
                    if !seen.insert(&f.name) {
                        out.push(IllFormed { class: "duplicate-field".into(), msg: format!("field {:?} twice", f.name) });
                    }
                    if let Some(d) = &f.default {
                        if let Err((kind, m)) = default_conforms(&f.schema, &from_serde(d), ns_owned.as_deref(), defs, 0) {
                            out.push(IllFormed { class: format!("default-nonconforming/{kind}"), msg: format!("field {}: default {} does not conform: {m}", f.name, d) });
                        }
                    }
                    walk(&f.schema, ns_owned.as_deref(), defs, out);
                }
            }
            _ => {}
        }
    }
    walk(root, None, &defs, &mut out);
    out
}

pub fn kind_name(s: &Schema) -> &'static str {
    match s {
        Schema::Null => "null",
        Schema::Boolean => "boolean",
        Schema::Int => "int",
        Schema::Long => "long",
        Schema::Float => "float",
        Schema::Double => "double",
        Schema::Bytes => "bytes",
        Schema::String => "string",
        Schema::Array(_) => "array",
        Schema::Map(_) => "map",
        Schema::Union(_) => "union",
        Schema::Record(_) => "record",
        Schema::Enum(_) => "enum",
        Schema::Fixed(_) => "fixed",
        Schema::Decimal(_) => "decimal",
        Schema::BigDecimal => "big-decimal",
        Schema::Uuid(_) => "uuid",
        Schema::Date => "date",
        Schema::TimeMillis => "time-millis",
        Schema::TimeMicros => "time-micros",
        Schema::TimestampMillis | Schema::TimestampMicros | Schema::TimestampNanos => "timestamp",
        Schema::LocalTimestampMillis | Schema::LocalTimestampMicros | Schema::LocalTimestampNanos => "local-timestamp",
        Schema::Duration(_) => "duration",
        Schema::Ref { .. } => "ref",
    }
}

fn is_int_text(n: &str) -> Option<i128> {
    n.parse::<i128>().ok()
}

/// The spec's table "field default values": does JSON `d` encode a value of schema `s`?
/// Union: some branch (the current specification's rule).
pub fn default_conforms(s: &Schema, d: &Js, enclosing: Option<&str>, defs: &BTreeMap<String, &Schema>, depth: usize) -> Result<(), (String, String)> {
    if depth > 64 {
        return Ok(());
    }
    let bad = |what: &str| Err((kind_name(s).to_string(), format!("expected {what}, found {}", d.render())));
    match s {
        Schema::Null => matches!(d, Js::Null).then_some(()).ok_or(()).or_else(|_| bad("null")),
        Schema::Boolean => matches!(d, Js::Bool(_)).then_some(()).ok_or(()).or_else(|_| bad("boolean")),
        Schema::Int | Schema::Date | Schema::TimeMillis => match d {
            Js::Num(n) => match is_int_text(n) {
                Some(v) if v >= i32::MIN as i128 && v <= i32::MAX as i128 => Ok(()),
                _ => bad("32-bit integer"),
            },
            _ => bad("integer"),
        },
        Schema::Long | Schema::TimeMicros | Schema::TimestampMillis | Schema::TimestampMicros | Schema::TimestampNanos | Schema::LocalTimestampMillis | Schema::LocalTimestampMicros | Schema::LocalTimestampNanos => match d {
            Js::Num(n) => match is_int_text(n) {
                Some(v) if v >= i64::MIN as i128 && v <= i64::MAX as i128 => Ok(()),
                _ => bad("64-bit integer"),
            },
            _ => bad("integer"),
        },
        Schema::Float | Schema::Double => matches!(d, Js::Num(_)).then_some(()).ok_or(()).or_else(|_| bad("number")),
        Schema::Bytes | Schema::BigDecimal | Schema::Decimal(DecimalSchema { inner: InnerDecimalSchema::Bytes, .. }) | Schema::Uuid(UuidSchema::Bytes) => match d {
            Js::Str(x) if x.chars().all(|c| (c as u32) < 256) => Ok(()),
            Js::Str(_) => Err((format!("{}-non-latin1", kind_name(s)), format!("string default with code points above 255: {}", d.render()))),
            Js::Arr(items) if items.iter().all(|x| matches!(x.as_i128(), Some(0..=255))) => {
                Err((format!("{}-from-int-array", kind_name(s)), format!("array of small integers as a bytes default: {}", d.render())))
            }
            _ => bad("string of code points 0-255"),
        },
        Schema::String | Schema::Uuid(UuidSchema::String) => matches!(d, Js::Str(_)).then_some(()).ok_or(()).or_else(|_| bad("string")),
        Schema::Fixed(f) | Schema::Duration(f) | Schema::Uuid(UuidSchema::Fixed(f)) | Schema::Decimal(DecimalSchema { inner: InnerDecimalSchema::Fixed(f), .. }) => match d {
            Js::Str(x) if !x.chars().all(|c| (c as u32) < 256) => Err((format!("{}-non-latin1", kind_name(s)), format!("string default with code points above 255: {}", d.render()))),
            Js::Str(x) => {
                if x.chars().count() == f.size {
                    Ok(())
                } else {
                    Err((format!("{}-length", kind_name(s)), format!("fixed({}) default has {} characters", f.size, x.chars().count())))
                }
            }
            _ => bad("string of code points 0-255"),
        },
        Schema::Enum(e) => match d {
            Js::Str(x) if e.symbols.contains(x) => Ok(()),
            Js::Str(_) if e.default.is_some() => Err(("enum-unknown-symbol-with-enum-default".to_string(), format!("{} is not a symbol (the enum has a default symbol)", d.render()))),
            _ => bad("one of the symbols"),
        },
        Schema::Array(a) => match d {
            Js::Arr(items) => {
                for it in items {
                    default_conforms(&a.items, it, enclosing, defs, depth + 1)?;
                }
                Ok(())
            }
            _ => bad("array"),
        },
        Schema::Map(m) => match d {
            Js::Obj(items) => {
                for (_, it) in items {
                    default_conforms(&m.types, it, enclosing, defs, depth + 1)?;
                }
                Ok(())
            }
            _ => bad("object"),
        },
        Schema::Record(r) => match d {
            Js::Obj(items) => {
                let ns_owned = r.name.namespace().or(enclosing).map(|s| s.to_string());
                for f in &r.fields {
                    match items.iter().find(|(k, _)| *k == f.name) {
                        Some((_, v)) => default_conforms(&f.schema, v, ns_owned.as_deref(), defs, depth + 1)?,
                        None => {
                            if f.default.is_none() {
                                return Err(("record-missing-field".to_string(), format!("record default lacks field {} which has no default of its own", f.name)));
                            }
                        }
                    }
                }
                Ok(())
            }
            _ => bad("object"),
        },
        Schema::Union(u) => {
            let errs: Vec<(String, String)> = u.variants().iter().filter_map(|b| default_conforms(b, d, enclosing, defs, depth + 1).err()).collect();
            if errs.len() < u.variants().len() {
                Ok(())
            } else if let Some(e) = errs.iter().find(|(k, _)| k.ends_with("-length") || k.ends_with("-non-latin1") || k.starts_with("enum-unknown") || k.ends_with("-from-int-array")) {
                // a branch of the right JSON kind failed only on its length: that is the root cause
                Err(e.clone())
            } else {
                bad("a value of some union branch")
            }
        }
        Schema::Ref { name } => match defs.get(&full(name, enclosing)) {
            Some(def) => {
                let ns = name.namespace().or(enclosing).map(|s| s.to_string());
                default_conforms(def, d, ns.as_deref(), defs, depth + 1)
            }
            None => Ok(()), // reported as unresolved-reference elsewhere
        },
    }
}
