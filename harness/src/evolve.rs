//! Schema evolution steps: derive a reader schema R from a writer schema W.

use crate::choices::Choices;
use crate::json::Js;
use crate::spec::*;
use crate::vgen;

#[derive(Clone, Debug, PartialEq)]
pub struct Step {
    pub name: &'static str,
    /// the specification defines this step as always safe for reading old data
    pub safe: bool,
    /// kind of the node it was applied at
    pub at: String,
}

const SAFE: &[&str] = &[
    "promote-int-long", "promote-int-float", "promote-int-double", "promote-long-float", "promote-long-double", "promote-float-double",
    "add-field-with-default", "remove-field", "reorder-fields", "alias-naming-another-writer-field", "add-union-branch", "add-enum-symbol", "wrap-in-union",
];

struct Ev<'a, 'c, 'd> {
    c: &'c mut Choices<'d>,
    env: &'a Env,
    skip: usize,
    applied: Option<Step>,
    counter: &'a mut usize,
    allow_incompatible: bool,
    only: Option<&'static str>,
}

fn prim(t: SType) -> SNode {
    SNode::prim(t)
}

impl<'a, 'c, 'd> Ev<'a, 'c, 'd> {
    fn fresh(&mut self, stem: &str) -> String {
        *self.counter += 1;
        format!("{stem}{}", 9000 + *self.counter)
    }

    /// candidate replacements for this node
    fn candidates(&mut self, n: &SNode) -> Vec<(&'static str, SNode)> {
        let mut out: Vec<(&'static str, SNode)> = vec![];
        if n.logical.is_some() {
            return out;
        }
        match &n.ty {
            SType::Int => {
                out.push(("promote-int-long", prim(SType::Long)));
                out.push(("promote-int-float", prim(SType::Float)));
                out.push(("promote-int-double", prim(SType::Double)));
                if self.allow_incompatible {
                    out.push(("incompatible-int-string", prim(SType::String)));
                    out.push(("incompatible-int-boolean", prim(SType::Boolean)));
                }
            }
            SType::Long => {
                out.push(("promote-long-float", prim(SType::Float)));
                out.push(("promote-long-double", prim(SType::Double)));
                if self.allow_incompatible {
                    out.push(("narrow-long-int", prim(SType::Int)));
                }
            }
            SType::Float => {
                out.push(("promote-float-double", prim(SType::Double)));
                if self.allow_incompatible {
                    out.push(("narrow-float-int", prim(SType::Int)));
                }
            }
            SType::Double => {
                if self.allow_incompatible {
                    out.push(("narrow-double-float", prim(SType::Float)));
                    out.push(("narrow-double-long", prim(SType::Long)));
                }
            }
            SType::String => {
                out.push(("promote-string-bytes", prim(SType::Bytes)));
                if self.allow_incompatible {
                    out.push(("incompatible-string-int", prim(SType::Int)));
                }
            }
            SType::Bytes => out.push(("promote-bytes-string", prim(SType::String))),
            SType::Boolean => {
                if self.allow_incompatible {
                    out.push(("incompatible-boolean-int", prim(SType::Int)));
                }
            }
            SType::Fixed(named, size) => {
                if self.allow_incompatible {
                    out.push(("fixed-size-change", SNode { ty: SType::Fixed(named.clone(), size + 1), ..n.clone() }));
                    let mut renamed = named.clone();
                    renamed.name = self.fresh("Renamed");
                    out.push(("rename-without-alias", SNode { ty: SType::Fixed(renamed, *size), ..n.clone() }));
                }
                let mut renamed = named.clone();
                renamed.name = self.fresh("Renamed");
                renamed.aliases.push(named.fullname());
                out.push(("rename-with-alias", SNode { ty: SType::Fixed(renamed, *size), ..n.clone() }));
            }
            SType::Enum(named, symbols, default) => {
                let mut more = symbols.clone();
                more.push(self.fresh("NEW"));
                out.push(("add-enum-symbol", SNode { ty: SType::Enum(named.clone(), more, default.clone()), ..n.clone() }));
                if symbols.len() >= 2 {
                    let mut fewer = symbols.clone();
                    let i = self.c.pick(fewer.len());
                    let gone = fewer.remove(i);
                    let d = if default.as_ref() == Some(&gone) { None } else { default.clone() };
                    out.push(("remove-enum-symbol", SNode { ty: SType::Enum(named.clone(), fewer.clone(), d), ..n.clone() }));
                    out.push(("remove-enum-symbol-with-default", SNode { ty: SType::Enum(named.clone(), fewer.clone(), Some(fewer[0].clone())), ..n.clone() }));
                    let mut rev = symbols.clone();
                    rev.reverse();
                    out.push(("reorder-enum-symbols", SNode { ty: SType::Enum(named.clone(), rev, default.clone()), ..n.clone() }));
                }
                if self.allow_incompatible {
                    let mut renamed = named.clone();
                    renamed.name = self.fresh("Renamed");
                    out.push(("rename-without-alias", SNode { ty: SType::Enum(renamed, symbols.clone(), default.clone()), ..n.clone() }));
                }
            }
            SType::Union(bs) => {
                let used: Vec<&str> = bs.iter().map(|b| b.kind()).collect();
                let extra = [SType::Null, SType::Boolean, SType::String, SType::Long, SType::Double].into_iter().find(|t| !used.contains(&SNode::prim(t.clone()).kind()));
                if let Some(t) = extra {
                    let mut more = bs.clone();
                    more.push(prim(t.clone()));
                    out.push(("add-union-branch", SNode { ty: SType::Union(more), ..n.clone() }));
                    let mut front = bs.clone();
                    front.insert(0, prim(t));
                    out.push(("add-union-branch-front", SNode { ty: SType::Union(front), ..n.clone() }));
                }
                if bs.len() >= 2 {
                    let mut fewer = bs.clone();
                    let i = self.c.pick(fewer.len());
                    fewer.remove(i);
                    out.push(("remove-union-branch", SNode { ty: SType::Union(fewer), ..n.clone() }));
                    let mut rev = bs.clone();
                    rev.reverse();
                    out.push(("reorder-union-branches", SNode { ty: SType::Union(rev), ..n.clone() }));
                }
                if bs.len() == 1 {
                    out.push(("unwrap-union", bs[0].clone()));
                }
            }
            SType::Record(named, fields) => {
                // add a reader field with a default
                let fname = self.fresh("added");
                let ftype = match self.c.pick(9) {
                    0 => prim(SType::Int),
                    1 => prim(SType::String),
                    2 => SNode::prim(SType::Union(vec![prim(SType::Null), prim(SType::Long)])),
                    3 => SNode::prim(SType::Array(Box::new(prim(SType::Boolean)))),
                    4 => SNode::prim(SType::Map(Box::new(prim(SType::Double)))),
                    // unions whose default (a value of the FIRST branch) has, as plain JSON, the kind of a later branch too
                    5 => SNode::prim(SType::Union(vec![prim(SType::Long), prim(SType::Int)])),
                    6 => SNode::prim(SType::Union(vec![prim(SType::Double), prim(SType::Null), prim(SType::Int)])),
                    7 => SNode::prim(SType::Union(vec![prim(SType::Bytes), prim(SType::String)])),
                    _ => SNode::prim(SType::Union(vec![prim(SType::Float), prim(SType::Long)])),
                };
                let md = std::collections::BTreeMap::new();
                let dv = vgen::gen_value_cfg(self.c, &ftype, self.env, &md, &vgen::VgenCfg::for_defaults());
                let dj = vgen::default_json(&ftype, &dv, self.env).unwrap_or(Js::Null);
                let mut with = fields.clone();
                let pos = self.c.pick(with.len() + 1);
                with.insert(pos, FieldSpec { name: fname.clone(), node: ftype.clone(), default: Some(dj), doc: None, aliases: vec![], order: None, attrs: vec![] });
                out.push(("add-field-with-default", SNode { ty: SType::Record(named.clone(), with), ..n.clone() }));
                if self.allow_incompatible {
                    let mut with = fields.clone();
                    with.push(FieldSpec { name: fname, node: prim(SType::Int), default: None, doc: None, aliases: vec![], order: None, attrs: vec![] });
                    out.push(("add-field-without-default", SNode { ty: SType::Record(named.clone(), with), ..n.clone() }));
                    let mut renamed = named.clone();
                    renamed.name = self.fresh("Renamed");
                    out.push(("rename-without-alias", SNode { ty: SType::Record(renamed, fields.clone()), ..n.clone() }));
                }
                if !fields.is_empty() {
                    let mut fewer = fields.clone();
                    let i = self.c.pick(fewer.len());
                    fewer.remove(i);
                    out.push(("remove-field", SNode { ty: SType::Record(named.clone(), fewer), ..n.clone() }));
                    let mut ren = fields.clone();
                    let i = self.c.pick(ren.len());
                    let old = ren[i].name.clone();
                    ren[i].name = self.fresh("renamed");
                    ren[i].aliases = vec![old];
                    ren[i].default = None;
                    out.push(("rename-field-with-alias", SNode { ty: SType::Record(named.clone(), ren), ..n.clone() }));
                }
                if fields.len() >= 2 {
                    let mut rev = fields.clone();
                    rev.reverse();
                    out.push(("reorder-fields", SNode { ty: SType::Record(named.clone(), rev), ..n.clone() }));
                    // a reader field that also lists ANOTHER writer field's name as an alias: the
                    // field's own name takes precedence, so nothing changes for the reader
                    let i = self.c.pick(fields.len());
                    let j = (i + 1 + self.c.pick(fields.len() - 1)) % fields.len();
                    let mut al = fields.clone();
                    let other = al[j].name.clone();
                    // both must be fields of the writer (not added or renamed by an earlier step):
                    // only then does the reader field's own name match first
                    let from_writer = |n: &str| !n.starts_with("added") && !n.starts_with("renamed");
                    if from_writer(&al[i].name) && from_writer(&other) && !al[i].aliases.contains(&other) {
                        al[i].aliases.push(other);
                        // the other field is dropped from the reader half of the time
                        if self.c.bool() {
                            al.remove(j);
                        }
                        out.push(("alias-naming-another-writer-field", SNode { ty: SType::Record(named.clone(), al), ..n.clone() }));
                    }
                }
            }
            _ => {}
        }
        // wrapping works for any non-union node that is not a definition referenced elsewhere
        if !matches!(n.ty, SType::Union(_) | SType::Null | SType::Boolean | SType::Int | SType::Float | SType::Double | SType::Bytes) {
            out.push(("wrap-in-union", SNode::prim(SType::Union(vec![prim(SType::Null), n.clone()]))));
        }
        if let Some(only) = self.only {
            out.retain(|(name, _)| *name == only);
        }
        out
    }

    fn walk(&mut self, n: &SNode, in_union: bool) -> SNode {
        self.walk_f(n, in_union, false)
    }

    /// `defaulted`: the node is the type of a field that has a default (whose JSON must keep
    /// matching the union's first branch / the type)
    fn walk_f(&mut self, n: &SNode, in_union: bool, defaulted: bool) -> SNode {
        if self.applied.is_some() {
            return n.clone();
        }
        let mut cands = self.candidates(n);
        if defaulted {
            cands.clear();
        }
        if in_union {
            // a union may not directly contain a union, nor two branches of one kind
            cands.retain(|(name, _)| !matches!(*name, "wrap-in-union" | "unwrap-union") && !name.starts_with("promote") && !name.starts_with("narrow") && !name.starts_with("incompatible"));
        }
        if !cands.is_empty() {
            if self.skip == 0 {
                let i = self.c.pick(cands.len());
                let (name, nn) = cands.into_iter().nth(i).unwrap();
                self.applied = Some(Step { name, safe: SAFE.contains(&name), at: n.lkind() });
                return nn;
            }
            self.skip -= 1;
        }
        let mut out = n.clone();
        match &mut out.ty {
            SType::Array(i) | SType::Map(i) => **i = self.walk(i, false),
            SType::Union(bs) => {
                for b in bs.iter_mut() {
                    *b = self.walk(b, true);
                }
            }
            SType::Record(_, fields) => {
                for f in fields.iter_mut() {
                    let d = f.default.is_some();
                    f.node = self.walk_f(&f.node, false, d);
                }
            }
            _ => {}
        }
        out
    }
}

/// Apply one evolution step at a random position; None if no position offers one.
pub fn evolve_once(n: &SNode, env: &Env, c: &mut Choices, counter: &mut usize, allow_incompatible: bool, only: Option<&'static str>) -> Option<(SNode, Step)> {
    // count positions
    let total = {
        let mut e = Ev { c, env, skip: usize::MAX, applied: None, counter, allow_incompatible, only };
        e.walk(n, false);
        usize::MAX - e.skip
    };
    if total == 0 {
        return None;
    }
    let skip = c.pick(total);
    let mut e = Ev { c, env, skip, applied: None, counter, allow_incompatible, only };
    let out = e.walk(n, false);
    e.applied.map(|s| (out, s))
}

/// After steps that rename or restructure definitions, references elsewhere in the reader
/// schema may dangle or point at changed definitions; keep R self-consistent by checking.
pub fn refs_consistent(n: &SNode) -> bool {
    let env = env_of(n);
    fn ok(n: &SNode, env: &Env) -> bool {
        match &n.ty {
            SType::Ref(r) => env.contains_key(r),
            SType::Array(i) | SType::Map(i) => ok(i, env),
            SType::Union(bs) => bs.iter().all(|b| ok(b, env)),
            SType::Record(_, fields) => fields.iter().all(|f| ok(&f.node, env)),
            _ => true,
        }
    }
    ok(n, &env)
}
