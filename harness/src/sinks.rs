//! Sinks that obey the `std::io::Write` contract in the least convenient way:
//! short writes and an injected error at a chosen call.

use std::io::{Error, ErrorKind, Write};

#[derive(Clone, Debug)]
pub enum Plan {
    /// accept everything offered
    All,
    /// accept at most k (>=1) bytes per call
    AtMost(usize),
    /// accept at most cycle[i % len] (each >=1) bytes on the i-th call
    Cycle(Vec<usize>),
}

#[derive(Clone, Copy, Debug, PartialEq)]
pub enum FaultKind {
    Other,
    Interrupted,
}

#[derive(Clone, Copy, Debug, PartialEq)]
pub enum FaultOn {
    Write,
    Flush,
}

#[derive(Debug)]
pub struct FaultSink {
    pub data: Vec<u8>,
    pub plan: Plan,
    pub write_calls: usize,
    pub flush_calls: usize,
    /// (which, index, kind): fail the index-th write (or flush) call once
    pub fault: Option<(FaultOn, usize, FaultKind)>,
    pub fault_fired: bool,
    /// some call accepted fewer bytes than offered
    pub split: bool,
}

impl FaultSink {
    pub fn new(plan: Plan) -> Self {
        FaultSink { data: vec![], plan, write_calls: 0, flush_calls: 0, fault: None, fault_fired: false, split: false }
    }
    fn err(kind: FaultKind) -> Error {
        match kind {
            FaultKind::Other => Error::new(ErrorKind::Other, "injected sink failure"),
            FaultKind::Interrupted => Error::new(ErrorKind::Interrupted, "injected interruption"),
        }
    }
}

impl Write for FaultSink {
    fn write(&mut self, buf: &[u8]) -> std::io::Result<usize> {
        let idx = self.write_calls;
        self.write_calls += 1;
        if let Some((FaultOn::Write, at, kind)) = self.fault {
            if at == idx && !self.fault_fired {
                self.fault_fired = true;
                return Err(Self::err(kind));
            }
        }
        if buf.is_empty() {
            return Ok(0);
        }
        let cap = match &self.plan {
            Plan::All => buf.len(),
            Plan::AtMost(k) => (*k).max(1),
            Plan::Cycle(c) => c[idx % c.len()].max(1),
        };
        let n = buf.len().min(cap);
        if n < buf.len() {
            self.split = true;
        }
        self.data.extend_from_slice(&buf[..n]);
        Ok(n)
    }
    fn flush(&mut self) -> std::io::Result<()> {
        let idx = self.flush_calls;
        self.flush_calls += 1;
        if let Some((FaultOn::Flush, at, kind)) = self.fault {
            if at == idx && !self.fault_fired {
                self.fault_fired = true;
                return Err(Self::err(kind));
            }
        }
        Ok(())
    }
}

/// Counts bytes handed out, for "how much did the reader consume".
pub struct CountingReader<'a> {
    pub data: &'a [u8],
    pub pos: usize,
}

impl<'a> std::io::Read for CountingReader<'a> {
    fn read(&mut self, buf: &mut [u8]) -> std::io::Result<usize> {
        let n = buf.len().min(self.data.len() - self.pos);
        buf[..n].copy_from_slice(&self.data[self.pos..self.pos + n]);
        self.pos += n;
        Ok(n)
    }
}
