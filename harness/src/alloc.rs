//! Counting global allocator: while a thread is "armed" it records the largest single
//! request and the peak of live bytes allocated by that thread.

use std::alloc::{GlobalAlloc, Layout, System};
use std::cell::Cell;

pub struct Counting;

thread_local! {
    static ARMED: Cell<bool> = const { Cell::new(false) };
    static MAX_REQ: Cell<usize> = const { Cell::new(0) };
    static LIVE: Cell<isize> = const { Cell::new(0) };
    static PEAK: Cell<isize> = const { Cell::new(0) };
    static TOTAL: Cell<usize> = const { Cell::new(0) };
}

#[inline]
fn note_alloc(size: usize) {
    // try_with: thread-locals may be gone during thread teardown
    let _ = ARMED.try_with(|a| {
        if a.get() {
            let _ = MAX_REQ.try_with(|m| {
                if size > m.get() {
                    m.set(size)
                }
            });
            let _ = TOTAL.try_with(|t| t.set(t.get().saturating_add(size)));
            let _ = LIVE.try_with(|l| {
                let v = l.get() + size as isize;
                l.set(v);
                let _ = PEAK.try_with(|p| {
                    if v > p.get() {
                        p.set(v)
                    }
                });
            });
        }
    });
}

#[inline]
fn note_free(size: usize) {
    let _ = ARMED.try_with(|a| {
        if a.get() {
            let _ = LIVE.try_with(|l| l.set(l.get() - size as isize));
        }
    });
}

unsafe impl GlobalAlloc for Counting {
    unsafe fn alloc(&self, layout: Layout) -> *mut u8 {
        note_alloc(layout.size());
        unsafe { System.alloc(layout) }
    }
    unsafe fn alloc_zeroed(&self, layout: Layout) -> *mut u8 {
        note_alloc(layout.size());
        unsafe { System.alloc_zeroed(layout) }
    }
    unsafe fn dealloc(&self, ptr: *mut u8, layout: Layout) {
        note_free(layout.size());
        unsafe { System.dealloc(ptr, layout) }
    }
    unsafe fn realloc(&self, ptr: *mut u8, layout: Layout, new_size: usize) -> *mut u8 {
        note_alloc(new_size);
        note_free(layout.size());
        unsafe { System.realloc(ptr, layout, new_size) }
    }
}

#[derive(Debug, Clone, Copy, Default)]
pub struct Usage {
    pub max_request: usize,
    pub peak_live: usize,
    pub total: usize,
}

/// Measure the allocations of `f` on this thread.
pub fn measure<T>(f: impl FnOnce() -> T) -> (T, Usage) {
    MAX_REQ.with(|m| m.set(0));
    LIVE.with(|l| l.set(0));
    PEAK.with(|p| p.set(0));
    TOTAL.with(|t| t.set(0));
    ARMED.with(|a| a.set(true));
    struct Disarm;
    impl Drop for Disarm {
        fn drop(&mut self) {
            let _ = ARMED.try_with(|a| a.set(false));
        }
    }
    let d = Disarm;
    let out = f();
    drop(d);
    let u = Usage { max_request: MAX_REQ.with(|m| m.get()), peak_live: PEAK.with(|p| p.get()).max(0) as usize, total: TOTAL.with(|t| t.get()) };
    (out, u)
}
