//! Reference schema resolution, from the specification's rules. Set-valued where the
//! specification and implementations legitimately differ (reader unions): every spec-conformant
//! outcome is listed, each either a value or "error".

use crate::json::Js;
use crate::spec::*;

#[derive(Clone, Debug, PartialEq)]
pub enum Alt {
    Val(V),
    Err,
}

pub struct Ctx<'a> {
    pub wenv: &'a Env,
    pub renv: &'a Env,
    /// set when the alternative list had to be truncated (then non-membership proves nothing)
    pub truncated: bool,
    /// why the rules gave "error" somewhere in this resolution (root-cause classes for findings)
    pub reasons: std::collections::BTreeSet<&'static str>,
}

impl<'a> Ctx<'a> {
    pub fn new(wenv: &'a Env, renv: &'a Env) -> Self {
        Ctx { wenv, renv, truncated: false, reasons: Default::default() }
    }
    fn err(&mut self, why: &'static str) -> Vec<Alt> {
        self.reasons.insert(why);
        vec![Alt::Err]
    }
}

const CAP: usize = 48;

fn names_match(w: &Named, r: &Named) -> bool {
    w.name == r.name || r.aliases.iter().any(|a| simple_of(a) == w.name || *a == w.fullname())
}

/// The spec's "schemas match" relation (shallow for records/enums/fixed: by name).
pub fn matches(w: &SNode, r: &SNode, cx: &Ctx, depth: usize) -> bool {
    if depth > 32 {
        return true;
    }
    let w = deref(w, cx.wenv);
    let r = deref(r, cx.renv);
    match (&w.ty, &r.ty) {
        (SType::Union(_), _) | (_, SType::Union(_)) => true, // decided per branch at resolution time
        (SType::Array(a), SType::Array(b)) | (SType::Map(a), SType::Map(b)) => matches(a, b, cx, depth + 1),
        (SType::Record(a, _), SType::Record(b, _)) => names_match(a, b),
        (SType::Enum(a, ..), SType::Enum(b, ..)) => names_match(a, b),
        (SType::Fixed(a, s), SType::Fixed(b, t)) => s == t && names_match(a, b) && w.logical == r.logical,
        (a, b) => {
            if w.logical != r.logical {
                // logical types annotate the underlying type; resolution uses the underlying types
                return prim_match(a, b);
            }
            prim_match(a, b)
        }
    }
}

fn prim_match(w: &SType, r: &SType) -> bool {
    use SType::*;
    matches!(
        (w, r),
        (Null, Null) | (Boolean, Boolean) | (Int, Int) | (Long, Long) | (Float, Float) | (Double, Double) | (Bytes, Bytes) | (String, String)
            | (Int, Long) | (Int, Float) | (Int, Double) | (Long, Float) | (Long, Double) | (Float, Double) | (String, Bytes) | (Bytes, String)
    )
}

fn cartesian(parts: Vec<Vec<Alt>>, cx: &mut Ctx) -> Vec<Result<Vec<V>, ()>> {
    let mut acc: Vec<Result<Vec<V>, ()>> = vec![Ok(vec![])];
    for p in parts {
        let mut next = vec![];
        for a in &acc {
            for alt in &p {
                match (a, alt) {
                    (Ok(prefix), Alt::Val(v)) => {
                        let mut n = prefix.clone();
                        n.push(v.clone());
                        next.push(Ok(n));
                    }
                    _ => next.push(Err(())),
                }
            }
        }
        next.dedup();
        // collapse duplicate errors
        let mut seen_err = false;
        next.retain(|x| match x {
            Err(()) => {
                let keep = !seen_err;
                seen_err = true;
                keep
            }
            _ => true,
        });
        if next.len() > CAP {
            next.truncate(CAP);
            cx.truncated = true;
        }
        acc = next;
    }
    acc
}

/// All spec-conformant outcomes of reading `v` (written with `w`) with reader schema `r`.
pub fn resolve(w: &SNode, r: &SNode, v: &V, cx: &mut Ctx, depth: usize) -> Vec<Alt> {
    if depth > 64 {
        cx.truncated = true;
        return vec![Alt::Err];
    }
    let wd = deref(w, cx.wenv).clone();
    let rd = deref(r, cx.renv).clone();
    // writer union: the value selects the branch
    if let (SType::Union(wbs), V::Union(i, inner)) = (&wd.ty, v) {
        return resolve(&wbs[*i], &rd, inner, cx, depth + 1);
    }
    // reader union: any branch that matches the writer's schema
    if let SType::Union(rbs) = &rd.ty {
        let mut out = vec![];
        let mut any = false;
        for (j, b) in rbs.iter().enumerate() {
            if matches(&wd, b, cx, 0) && kind_compatible(&wd, deref(b, cx.renv)) {
                any = true;
                for alt in resolve(&wd, b, v, cx, depth + 1) {
                    let a = match alt {
                        Alt::Val(x) => Alt::Val(V::Union(j, Box::new(x))),
                        Alt::Err => Alt::Err,
                    };
                    if !out.contains(&a) {
                        out.push(a);
                    }
                }
            }
        }
        if !any {
            return cx.err("no-reader-union-branch-matches");
        }
        return out;
    }
    let one = |v: V| vec![Alt::Val(v)];
    match (&wd.ty, &rd.ty, v) {
        (SType::Array(wi), SType::Array(ri), V::Array(items)) => {
            let parts: Vec<Vec<Alt>> = items.iter().map(|x| resolve(wi, ri, x, cx, depth + 1)).collect();
            cartesian(parts, cx).into_iter().map(|r| r.map(|v| Alt::Val(V::Array(v))).unwrap_or(Alt::Err)).collect()
        }
        (SType::Map(wi), SType::Map(ri), V::Map(items)) => {
            let parts: Vec<Vec<Alt>> = items.iter().map(|(_, x)| resolve(wi, ri, x, cx, depth + 1)).collect();
            cartesian(parts, cx)
                .into_iter()
                .map(|r| r.map(|vals| Alt::Val(V::Map(items.iter().map(|(k, _)| k.clone()).zip(vals).collect()))).unwrap_or(Alt::Err))
                .collect()
        }
        (SType::Enum(wn, wsyms, _), SType::Enum(rn, rsyms, rdef), V::Enum(i)) => {
            if !names_match(wn, rn) {
                return cx.err("named-type-name-mismatch");
            }
            let sym = &wsyms[*i];
            match rsyms.iter().position(|s| s == sym) {
                Some(p) => one(V::Enum(p)),
                None => match rdef.as_ref().and_then(|d| rsyms.iter().position(|s| s == d)) {
                    Some(p) => one(V::Enum(p)),
                    None => cx.err("enum-symbol-unknown-to-reader-without-enum-default"),
                },
            }
        }
        (SType::Fixed(wn, ws), SType::Fixed(rn, rs), _) => {
            if ws == rs && names_match(wn, rn) && wd.logical == rd.logical {
                one(v.clone())
            } else if !names_match(wn, rn) {
                cx.err("named-type-name-mismatch")
            } else {
                cx.err("fixed-size-or-logical-type-differs")
            }
        }
        (SType::Record(wn, wfields), SType::Record(rn, rfields), V::Record(vals)) => {
            if !names_match(wn, rn) {
                return cx.err("named-type-name-mismatch");
            }
            let mut parts: Vec<Vec<Alt>> = vec![];
            for rf in rfields {
                let wpos = wfields.iter().position(|wf| wf.name == rf.name).or_else(|| wfields.iter().position(|wf| rf.aliases.contains(&wf.name)));
                match wpos {
                    Some(p) => parts.push(resolve(&wfields[p].node, &rf.node, &vals[p], cx, depth + 1)),
                    None => match &rf.default {
                        Some(js) => match default_value(&rf.node, js, cx.renv, 0) {
                            Some(dv) => parts.push(vec![Alt::Val(dv)]),
                            None => {
                                // a default the harness cannot interpret: no verdict on this case
                                cx.truncated = true;
                                parts.push(vec![Alt::Err]);
                            }
                        },
                        None => {
                            let e = cx.err("reader-field-without-default-missing-in-writer");
                            parts.push(e)
                        }
                    },
                }
            }
            cartesian(parts, cx).into_iter().map(|r| r.map(|v| Alt::Val(V::Record(v))).unwrap_or(Alt::Err)).collect()
        }
        // primitives and logical types on primitives
        (wt, rt, _) => {
            if wd.logical.is_some() || rd.logical.is_some() {
                if wd.logical == rd.logical && std::mem::discriminant(wt) == std::mem::discriminant(rt) {
                    return one(v.clone());
                }
                // resolution uses the underlying types (handled for int/long based ones)
                if !prim_match(wt, rt) {
                    return cx.err("types-do-not-match");
                }
                return match (v, rd.logical.is_some() || wd.logical.is_some()) {
                    (V::Int(_) | V::Long(_), _) => promote(wt, rt, v).map(one).unwrap_or_else(|| cx.err("types-do-not-match")),
                    _ => {
                        cx.truncated = true; // bytes/fixed/string based logical types across a change: not modelled
                        vec![Alt::Err]
                    }
                };
            }
            if !prim_match(wt, rt) {
                return cx.err("types-do-not-match");
            }
            promote(wt, rt, v).map(one).unwrap_or_else(|| cx.err("types-do-not-match"))
        }
    }
}

/// A reader branch of an incompatible *kind* never matches (arrays vs records ...).
fn kind_compatible(w: &SNode, r: &SNode) -> bool {
    match (&w.ty, &r.ty) {
        (SType::Array(_), SType::Array(_)) | (SType::Map(_), SType::Map(_)) | (SType::Record(..), SType::Record(..)) | (SType::Enum(..), SType::Enum(..)) | (SType::Fixed(..), SType::Fixed(..)) => true,
        (a, b) => prim_match(a, b),
    }
}

fn promote(w: &SType, r: &SType, v: &V) -> Option<V> {
    use SType::*;
    Some(match (w, r, v) {
        (a, b, v) if std::mem::discriminant(a) == std::mem::discriminant(b) => v.clone(),
        (Int, Long, V::Int(x)) => V::Long(*x as i64),
        (Int, Float, V::Int(x)) => V::Float((*x as f32).to_bits()),
        (Int, Double, V::Int(x)) => V::Double((*x as f64).to_bits()),
        (Long, Float, V::Long(x)) => V::Float((*x as f32).to_bits()),
        (Long, Double, V::Long(x)) => V::Double((*x as f64).to_bits()),
        (Float, Double, V::Float(b)) => V::Double((f32::from_bits(*b) as f64).to_bits()),
        (String, Bytes, V::Str(s)) => V::Bytes(s.as_bytes().to_vec()),
        (Bytes, String, V::Bytes(b)) => V::Str(std::string::String::from_utf8(b.clone()).ok()?),
        _ => return None,
    })
}

/// The value a JSON default denotes under a schema (spec's table; union: first branch).
pub fn default_value(n: &SNode, js: &Js, env: &Env, depth: usize) -> Option<V> {
    if depth > 32 {
        return None;
    }
    let n = deref(n, env);
    if n.logical.is_some() {
        return match (&n.logical, js) {
            (Some(Logical::Date | Logical::TimeMillis), Js::Num(_)) => Some(V::Int(js.as_i128()? as i32)),
            (Some(Logical::Decimal { .. } | Logical::BigDecimal | Logical::Uuid | Logical::Duration), _) => None,
            (_, Js::Num(_)) => Some(V::Long(js.as_i128()? as i64)),
            _ => None,
        };
    }
    Some(match (&n.ty, js) {
        (SType::Null, Js::Null) => V::Null,
        (SType::Boolean, Js::Bool(b)) => V::Bool(*b),
        (SType::Int, Js::Num(_)) => V::Int(i32::try_from(js.as_i128()?).ok()?),
        (SType::Long, Js::Num(_)) => V::Long(i64::try_from(js.as_i128()?).ok()?),
        (SType::Float, Js::Num(_)) => V::Float((js.as_f64()? as f32).to_bits()),
        (SType::Double, Js::Num(_)) => V::Double(js.as_f64()?.to_bits()),
        (SType::String, Js::Str(s)) => V::Str(s.clone()),
        (SType::Bytes, Js::Str(s)) => V::Bytes(s.chars().map(|c| u8::try_from(c as u32).ok()).collect::<Option<Vec<u8>>>()?),
        (SType::Fixed(_, size), Js::Str(s)) => {
            let b = s.chars().map(|c| u8::try_from(c as u32).ok()).collect::<Option<Vec<u8>>>()?;
            if b.len() != *size {
                return None;
            }
            V::Fixed(b)
        }
        (SType::Enum(_, symbols, _), Js::Str(s)) => V::Enum(symbols.iter().position(|x| x == s)?),
        (SType::Array(items), Js::Arr(a)) => V::Array(a.iter().map(|x| default_value(items, x, env, depth + 1)).collect::<Option<Vec<_>>>()?),
        (SType::Map(values), Js::Obj(o)) => V::Map(o.iter().map(|(k, x)| Some((k.clone(), default_value(values, x, env, depth + 1)?))).collect::<Option<Vec<_>>>()?),
        (SType::Record(_, fields), Js::Obj(_)) => V::Record(
            fields
                .iter()
                .map(|f| match js.get(&f.name) {
                    Some(x) => default_value(&f.node, x, env, depth + 1),
                    None => f.default.as_ref().and_then(|d| default_value(&f.node, d, env, depth + 1)),
                })
                .collect::<Option<Vec<_>>>()?,
        ),
        (SType::Union(bs), _) => V::Union(0, Box::new(default_value(bs.first()?, js, env, depth + 1)?)),
        _ => return None,
    })
}
