//! Schema-directed dynamic serde adapters: `DynSer` (Serialize) walks an SNode
//! and calls exactly the serializer method the documented mapping prescribes;
//! `DynDe` (DeserializeSeed) rebuilds a V; `AnyTree` accepts every visit_* and
//! counts elements (for deserialize_any and work bounds).

use crate::refbin::{from_twos_complement, put_long, twos_complement, Cur};
use crate::spec::*;
use serde::de::{self, DeserializeSeed, Deserializer, EnumAccess, MapAccess, SeqAccess, VariantAccess, Visitor};
use serde::ser::{Serialize, SerializeMap, SerializeSeq, SerializeStruct, Serializer};
use std::cell::Cell;
use std::collections::HashMap;
use std::fmt;
use std::sync::Mutex;

static INTERN: Mutex<Option<HashMap<String, &'static str>>> = Mutex::new(None);

/// Interned `&'static str` (leaked once per distinct string).
pub fn intern(s: &str) -> &'static str {
    let mut g = INTERN.lock().unwrap();
    let m = g.get_or_insert_with(HashMap::new);
    if let Some(x) = m.get(s) {
        return x;
    }
    let leaked: &'static str = Box::leak(s.to_string().into_boxed_str());
    m.insert(s.to_string(), leaked);
    leaked
}

fn mix(a: u64, b: u64) -> u64 {
    let mut z = a ^ b.wrapping_mul(0x9E37_79B9_7F4A_7C15);
    z = (z ^ (z >> 30)).wrapping_mul(0xBF58_476D_1CE4_E5B9);
    z = (z ^ (z >> 27)).wrapping_mul(0x94D0_49BB_1331_11EB);
    z ^ (z >> 31)
}

/// How the dynamic serializer varies the (equivalent) serde calls it makes.
#[derive(Clone, Copy, Debug, Default)]
pub struct SerPlan {
    /// 0 = plain (struct, in order, len hints, enum-variant unions); otherwise a seed for variations
    pub seed: u64,
}

pub struct DynSer<'a> {
    pub node: &'a SNode,
    pub v: &'a V,
    pub env: &'a Env,
    pub plan: SerPlan,
    pub path: u64,
    /// make the serialization fail at this root-record field index (a call no schema accepts)
    pub sabotage: Option<usize>,
}

impl<'a> DynSer<'a> {
    pub fn new(node: &'a SNode, v: &'a V, env: &'a Env, plan: SerPlan) -> Self {
        DynSer { node, v, env, plan, path: 1, sabotage: None }
    }
    fn child(&self, node: &'a SNode, v: &'a V, i: usize) -> DynSer<'a> {
        DynSer { node, v, env: self.env, plan: self.plan, path: mix(self.path, i as u64 + 1), sabotage: None }
    }
    fn vary(&self, salt: u64, n: u64) -> u64 {
        if self.plan.seed == 0 {
            0
        } else {
            mix(mix(self.plan.seed, self.path), salt) % n
        }
    }
}

pub fn bigdecimal_inner(unscaled: &num_bigint::BigInt, scale: i64) -> Vec<u8> {
    let mut inner = vec![];
    let b = twos_complement(unscaled, None).unwrap();
    put_long(b.len() as i64, &mut inner);
    inner.extend_from_slice(&b);
    put_long(scale, &mut inner);
    inner
}

impl<'a> Serialize for DynSer<'a> {
    fn serialize<S: Serializer>(&self, s: S) -> Result<S::Ok, S::Error> {
        let node = deref(self.node, self.env);
        match (&node.ty, self.v) {
            (_, V::Null) => s.serialize_unit(),
            (_, V::Bool(b)) => s.serialize_bool(*b),
            (_, V::Int(i)) => s.serialize_i32(*i),
            (_, V::Long(i)) => s.serialize_i64(*i),
            (_, V::Float(b)) => s.serialize_f32(f32::from_bits(*b)),
            (_, V::Double(b)) => s.serialize_f64(f64::from_bits(*b)),
            (_, V::Bytes(b)) => s.serialize_bytes(b),
            (_, V::Str(x)) => s.serialize_str(x),
            (_, V::Fixed(b)) => s.serialize_bytes(b),
            (SType::Fixed(_, size), V::Decimal(d)) => s.serialize_bytes(&twos_complement(d, Some(*size)).expect("harness: decimal fits")),
            (_, V::Decimal(d)) => s.serialize_bytes(&twos_complement(d, None).unwrap()),
            (_, V::BigDecimal(u, sc)) => s.serialize_bytes(&bigdecimal_inner(u, *sc)),
            (SType::String, V::Uuid(u)) => s.serialize_str(&crate::vgen::uuid_text(u)),
            (_, V::Uuid(u)) => s.serialize_bytes(u),
            (_, V::Duration(a, b, c)) => {
                let mut bytes = vec![];
                bytes.extend_from_slice(&a.to_le_bytes());
                bytes.extend_from_slice(&b.to_le_bytes());
                bytes.extend_from_slice(&c.to_le_bytes());
                s.serialize_bytes(&bytes)
            }
            (SType::Enum(n, symbols, _), V::Enum(i)) => {
                // serde's variant index is the position in the Rust enum, which need not be the
                // symbol's position in the schema (skipped variants, another order): the name decides
                let idx = match self.vary(9, 3) {
                    1 => (*i + 1) % symbols.len(),
                    2 => symbols.len() + *i,
                    _ => *i,
                };
                s.serialize_unit_variant(intern(&n.name), idx as u32, intern(&symbols[*i]))
            }
            (SType::Array(items), V::Array(a)) => {
                let hint = if self.vary(1, 3) == 2 { None } else { Some(a.len()) };
                let mut seq = s.serialize_seq(hint)?;
                for (i, x) in a.iter().enumerate() {
                    seq.serialize_element(&self.child(items, x, i))?;
                }
                seq.end()
            }
            (SType::Map(values), V::Map(m)) => {
                let hint = if self.vary(2, 3) == 2 { None } else { Some(m.len()) };
                let mut map = s.serialize_map(hint)?;
                for (i, (k, x)) in m.iter().enumerate() {
                    if self.vary(3, 2) == 1 {
                        map.serialize_key(k.as_str())?;
                        map.serialize_value(&self.child(values, x, i))?;
                    } else {
                        map.serialize_entry(k.as_str(), &self.child(values, x, i))?;
                    }
                }
                map.end()
            }
            (SType::Record(n, fields), V::Record(r)) => {
                // order of presentation: in order, or a rotation/reversal
                let mut order: Vec<usize> = (0..fields.len()).collect();
                match if self.sabotage.is_some() { 0 } else { self.vary(4, 4) } {
                    2 => order.reverse(),
                    3 if !order.is_empty() => {
                        let k = (self.vary(5, order.len() as u64)) as usize;
                        order.rotate_left(k);
                    }
                    _ => {}
                }
                if self.sabotage.is_none() && self.vary(6, 4) == 3 {
                    // map-style (what serde does for structs with flattened fields)
                    // (a flattened struct gives no length, a map-typed value such as BTreeMap does)
                    let hint = if self.vary(8, 2) == 1 { Some(fields.len()) } else { None };
                    let mut map = s.serialize_map(hint)?;
                    for i in order {
                        map.serialize_entry(fields[i].name.as_str(), &self.child(&fields[i].node, &r[i], i))?;
                    }
                    map.end()
                } else {
                    let mut st = s.serialize_struct(intern(&n.name), fields.len())?;
                    for i in order {
                        if self.sabotage == Some(i) {
                            st.serialize_field(intern(&fields[i].name), &Impossible)?;
                        } else {
                            st.serialize_field(intern(&fields[i].name), &self.child(&fields[i].node, &r[i], i))?;
                        }
                    }
                    st.end()
                }
            }
            (SType::Union(bs), V::Union(i, inner)) => {
                let b = deref(&bs[*i], self.env);
                let is_null = matches!(b.ty, SType::Null);
                let optionable = bs.len() == 2 && bs.iter().any(|x| matches!(deref(x, self.env).ty, SType::Null) && x.logical.is_none());
                if optionable && self.vary(7, 2) == 1 {
                    if is_null {
                        s.serialize_none()
                    } else {
                        s.serialize_some(&self.child(&bs[*i], inner, *i))
                    }
                } else if is_null {
                    s.serialize_unit_variant("U", *i as u32, intern(&format!("V{i}")))
                } else {
                    s.serialize_newtype_variant("U", *i as u32, intern(&format!("V{i}")), &self.child(&bs[*i], inner, *i))
                }
            }
            (t, v) => panic!("harness DynSer: {v:?} on {t:?}"),
        }
    }
}

/// A value no schema accepts: a tuple variant with an out-of-range variant index.
pub struct Impossible;
impl Serialize for Impossible {
    fn serialize<S: Serializer>(&self, s: S) -> Result<S::Ok, S::Error> {
        use serde::ser::SerializeTupleVariant;
        let tv = s.serialize_tuple_variant("HarnessImpossible", 4_000_000, "Nope", 3)?;
        tv.end()
    }
}

// ---------------------------------------------------------------- DynDe

thread_local! {
    /// elements visited by DynDe/AnyTree on this thread since the last reset
    pub static WORK: Cell<u64> = const { Cell::new(0) };
    pub static WORK_LIMIT: Cell<u64> = const { Cell::new(u64::MAX) };
}

pub const WORK_EXCEEDED: &str = "HARNESS-WORK-BUDGET-EXCEEDED";

pub fn reset_work(limit: u64) {
    WORK.with(|w| w.set(0));
    WORK_LIMIT.with(|w| w.set(limit));
}
pub fn work() -> u64 {
    WORK.with(|w| w.get())
}
fn tick<E: de::Error>() -> Result<(), E> {
    let n = WORK.with(|w| {
        w.set(w.get() + 1);
        w.get()
    });
    if n > WORK_LIMIT.with(|w| w.get()) {
        Err(E::custom(WORK_EXCEEDED))
    } else {
        Ok(())
    }
}

#[derive(Clone, Copy)]
pub struct DynDe<'a> {
    pub node: &'a SNode,
    pub env: &'a Env,
    /// use deserialize_option for 2-branch nullable unions
    pub option_style: bool,
    /// accept what the generic decoder accepts: any uuid text the uuid crate parses, trailing bytes in a big-decimal frame
    pub lenient: bool,
}

impl<'a> DynDe<'a> {
    pub fn new(node: &'a SNode, env: &'a Env) -> Self {
        DynDe { node, env, option_style: false, lenient: false }
    }
    fn child(&self, node: &'a SNode) -> DynDe<'a> {
        DynDe { node, env: self.env, option_style: self.option_style, lenient: self.lenient }
    }
}

struct BytesV;
impl<'de> Visitor<'de> for BytesV {
    type Value = Vec<u8>;
    fn expecting(&self, f: &mut fmt::Formatter) -> fmt::Result {
        f.write_str("bytes")
    }
    fn visit_bytes<E: de::Error>(self, v: &[u8]) -> Result<Vec<u8>, E> {
        Ok(v.to_vec())
    }
    fn visit_byte_buf<E: de::Error>(self, v: Vec<u8>) -> Result<Vec<u8>, E> {
        Ok(v)
    }
}
struct StrV;
impl<'de> Visitor<'de> for StrV {
    type Value = String;
    fn expecting(&self, f: &mut fmt::Formatter) -> fmt::Result {
        f.write_str("string")
    }
    fn visit_str<E: de::Error>(self, v: &str) -> Result<String, E> {
        Ok(v.to_string())
    }
    fn visit_string<E: de::Error>(self, v: String) -> Result<String, E> {
        Ok(v)
    }
}
macro_rules! scalar_visitor {
    ($name:ident, $t:ty, $m:ident, $exp:expr) => {
        struct $name;
        impl<'de> Visitor<'de> for $name {
            type Value = $t;
            fn expecting(&self, f: &mut fmt::Formatter) -> fmt::Result {
                f.write_str($exp)
            }
            fn $m<E: de::Error>(self, v: $t) -> Result<$t, E> {
                Ok(v)
            }
        }
    };
}
scalar_visitor!(BoolV, bool, visit_bool, "bool");
scalar_visitor!(I32V, i32, visit_i32, "i32");
scalar_visitor!(I64V, i64, visit_i64, "i64");
scalar_visitor!(F32V, f32, visit_f32, "f32");
scalar_visitor!(F64V, f64, visit_f64, "f64");
struct UnitV;
impl<'de> Visitor<'de> for UnitV {
    type Value = ();
    fn expecting(&self, f: &mut fmt::Formatter) -> fmt::Result {
        f.write_str("unit")
    }
    fn visit_unit<E: de::Error>(self) -> Result<(), E> {
        Ok(())
    }
}

/// identifier of an enum variant: symbol text (plain enum) or index (union)
enum Ident {
    Name(String),
    Index(u64),
}
struct IdentSeed;
impl<'de> DeserializeSeed<'de> for IdentSeed {
    type Value = Ident;
    fn deserialize<D: Deserializer<'de>>(self, d: D) -> Result<Ident, D::Error> {
        d.deserialize_identifier(IdentSeed)
    }
}
impl<'de> Visitor<'de> for IdentSeed {
    type Value = Ident;
    fn expecting(&self, f: &mut fmt::Formatter) -> fmt::Result {
        f.write_str("identifier")
    }
    fn visit_str<E: de::Error>(self, v: &str) -> Result<Ident, E> {
        Ok(Ident::Name(v.to_string()))
    }
    fn visit_string<E: de::Error>(self, v: String) -> Result<Ident, E> {
        Ok(Ident::Name(v))
    }
    fn visit_u64<E: de::Error>(self, v: u64) -> Result<Ident, E> {
        Ok(Ident::Index(v))
    }
    fn visit_u32<E: de::Error>(self, v: u32) -> Result<Ident, E> {
        Ok(Ident::Index(v as u64))
    }
}

impl<'a, 'de> DeserializeSeed<'de> for DynDe<'a> {
    type Value = V;
    fn deserialize<D: Deserializer<'de>>(self, d: D) -> Result<V, D::Error> {
        tick::<D::Error>()?;
        let node = deref(self.node, self.env);
        if let Some(l) = &node.logical {
            return match (l, &node.ty) {
                (Logical::Date | Logical::TimeMillis, _) => Ok(V::Int(d.deserialize_i32(I32V)?)),
                (Logical::Decimal { .. }, _) => Ok(V::Decimal(from_twos_complement(&d.deserialize_byte_buf(BytesV)?))),
                (Logical::BigDecimal, _) => {
                    let inner = d.deserialize_byte_buf(BytesV)?;
                    let mut ic = Cur::new(&inner);
                    let bad = || de::Error::custom("big-decimal framing");
                    let m = ic.len().map_err(|_| bad())?;
                    let unscaled = from_twos_complement(ic.take(m).map_err(|_| bad())?);
                    let scale = ic.long().map_err(|_| bad())?;
                    if ic.pos != inner.len() && !self.lenient {
                        return Err(bad());
                    }
                    Ok(V::BigDecimal(unscaled, scale))
                }
                (Logical::Uuid, SType::String) => {
                    let s = d.deserialize_string(StrV)?;
                    if self.lenient {
                        return uuid::Uuid::parse_str(&s).map(|u| V::Uuid(*u.as_bytes())).map_err(|_| de::Error::custom("uuid text"));
                    }
                    crate::refbin::parse_uuid_canonical(&s).map(V::Uuid).ok_or_else(|| de::Error::custom("uuid text not canonical"))
                }
                (Logical::Uuid, _) => {
                    let b = d.deserialize_byte_buf(BytesV)?;
                    if b.len() != 16 {
                        return Err(de::Error::custom("uuid length"));
                    }
                    let mut u = [0u8; 16];
                    u.copy_from_slice(&b);
                    Ok(V::Uuid(u))
                }
                (Logical::Duration, _) => {
                    let b = d.deserialize_byte_buf(BytesV)?;
                    if b.len() != 12 {
                        return Err(de::Error::custom("duration length"));
                    }
                    let f = |i: usize| u32::from_le_bytes([b[i], b[i + 1], b[i + 2], b[i + 3]]);
                    Ok(V::Duration(f(0), f(4), f(8)))
                }
                _ => Ok(V::Long(d.deserialize_i64(I64V)?)),
            };
        }
        match &node.ty {
            SType::Null => {
                d.deserialize_unit(UnitV)?;
                Ok(V::Null)
            }
            SType::Boolean => Ok(V::Bool(d.deserialize_bool(BoolV)?)),
            SType::Int => Ok(V::Int(d.deserialize_i32(I32V)?)),
            SType::Long => Ok(V::Long(d.deserialize_i64(I64V)?)),
            SType::Float => Ok(V::Float(d.deserialize_f32(F32V)?.to_bits())),
            SType::Double => Ok(V::Double(d.deserialize_f64(F64V)?.to_bits())),
            SType::Bytes => Ok(V::Bytes(d.deserialize_byte_buf(BytesV)?)),
            SType::String => Ok(V::Str(d.deserialize_string(StrV)?)),
            SType::Fixed(..) => Ok(V::Fixed(d.deserialize_byte_buf(BytesV)?)),
            SType::Enum(n, symbols, _) => {
                struct EV<'b>(&'b [String]);
                impl<'de, 'b> Visitor<'de> for EV<'b> {
                    type Value = V;
                    fn expecting(&self, f: &mut fmt::Formatter) -> fmt::Result {
                        f.write_str("enum")
                    }
                    fn visit_enum<A: EnumAccess<'de>>(self, a: A) -> Result<V, A::Error> {
                        let (id, variant) = a.variant_seed(IdentSeed)?;
                        variant.unit_variant()?;
                        match id {
                            Ident::Name(s) => self.0.iter().position(|x| *x == s).map(V::Enum).ok_or_else(|| de::Error::custom("unknown symbol")),
                            Ident::Index(i) => Ok(V::Enum(i as usize)),
                        }
                    }
                }
                d.deserialize_enum(intern(&n.name), &[], EV(symbols))
            }
            SType::Array(items) => {
                struct AV<'b>(DynDe<'b>);
                impl<'de, 'b> Visitor<'de> for AV<'b> {
                    type Value = V;
                    fn expecting(&self, f: &mut fmt::Formatter) -> fmt::Result {
                        f.write_str("seq")
                    }
                    fn visit_seq<A: SeqAccess<'de>>(self, mut a: A) -> Result<V, A::Error> {
                        let mut out = vec![];
                        while let Some(x) = a.next_element_seed(self.0)? {
                            out.push(x);
                        }
                        Ok(V::Array(out))
                    }
                }
                d.deserialize_seq(AV(self.child(items)))
            }
            SType::Map(values) => {
                struct MV<'b>(DynDe<'b>);
                impl<'de, 'b> Visitor<'de> for MV<'b> {
                    type Value = V;
                    fn expecting(&self, f: &mut fmt::Formatter) -> fmt::Result {
                        f.write_str("map")
                    }
                    fn visit_map<A: MapAccess<'de>>(self, mut a: A) -> Result<V, A::Error> {
                        let mut out: Vec<(String, V)> = vec![];
                        while let Some(k) = a.next_key::<String>()? {
                            let v = a.next_value_seed(self.0)?;
                            if let Some(e) = out.iter_mut().find(|(k2, _)| *k2 == k) {
                                e.1 = v;
                            } else {
                                out.push((k, v));
                            }
                        }
                        Ok(V::Map(out))
                    }
                }
                d.deserialize_map(MV(self.child(values)))
            }
            SType::Record(n, fields) => {
                struct RV<'b>(DynDe<'b>, &'b [FieldSpec]);
                impl<'de, 'b> Visitor<'de> for RV<'b> {
                    type Value = V;
                    fn expecting(&self, f: &mut fmt::Formatter) -> fmt::Result {
                        f.write_str("record")
                    }
                    fn visit_map<A: MapAccess<'de>>(self, mut a: A) -> Result<V, A::Error> {
                        let mut out: Vec<Option<V>> = vec![None; self.1.len()];
                        while let Some(id) = a.next_key_seed(IdentSeed)? {
                            let Ident::Name(k) = id else {
                                return Err(de::Error::custom("field index"));
                            };
                            let Some(pos) = self.1.iter().position(|f| f.name == k) else {
                                return Err(de::Error::custom(format!("unknown field {k}")));
                            };
                            let v = a.next_value_seed(self.0.child(&self.1[pos].node))?;
                            out[pos] = Some(v);
                        }
                        let mut vals = vec![];
                        for (i, o) in out.into_iter().enumerate() {
                            vals.push(o.ok_or_else(|| de::Error::custom(format!("missing field {}", self.1[i].name)))?);
                        }
                        Ok(V::Record(vals))
                    }
                }
                d.deserialize_struct(intern(&n.name), &[], RV(self, fields))
            }
            SType::Union(bs) => {
                let nullable2 = bs.len() == 2 && bs.iter().any(|x| matches!(x.ty, SType::Null));
                if self.option_style && nullable2 {
                    struct OV<'b>(DynDe<'b>, &'b [SNode]);
                    impl<'de, 'b> Visitor<'de> for OV<'b> {
                        type Value = V;
                        fn expecting(&self, f: &mut fmt::Formatter) -> fmt::Result {
                            f.write_str("option")
                        }
                        fn visit_none<E: de::Error>(self) -> Result<V, E> {
                            let i = self.1.iter().position(|x| matches!(x.ty, SType::Null)).unwrap();
                            Ok(V::Union(i, Box::new(V::Null)))
                        }
                        fn visit_some<D2: Deserializer<'de>>(self, d: D2) -> Result<V, D2::Error> {
                            let i = self.1.iter().position(|x| !matches!(x.ty, SType::Null)).unwrap();
                            Ok(V::Union(i, Box::new(self.0.child(&self.1[i]).deserialize(d)?)))
                        }
                    }
                    return d.deserialize_option(OV(self, bs));
                }
                struct UV<'b>(DynDe<'b>, &'b [SNode]);
                impl<'de, 'b> Visitor<'de> for UV<'b> {
                    type Value = V;
                    fn expecting(&self, f: &mut fmt::Formatter) -> fmt::Result {
                        f.write_str("union as enum")
                    }
                    fn visit_enum<A: EnumAccess<'de>>(self, a: A) -> Result<V, A::Error> {
                        let (id, variant) = a.variant_seed(IdentSeed)?;
                        let Ident::Index(i) = id else {
                            return Err(de::Error::custom("union variant by name"));
                        };
                        let i = i as usize;
                        let Some(b) = self.1.get(i) else {
                            return Err(de::Error::custom("union index out of range"));
                        };
                        let bd = deref(b, self.0.env);
                        if matches!(bd.ty, SType::Null) && bd.logical.is_none() {
                            variant.unit_variant()?;
                            Ok(V::Union(i, Box::new(V::Null)))
                        } else {
                            Ok(V::Union(i, Box::new(variant.newtype_variant_seed(self.0.child(b))?)))
                        }
                    }
                }
                d.deserialize_enum("U", &[], UV(self, bs))
            }
            SType::Ref(_) => unreachable!(),
        }
    }
}

// ---------------------------------------------------------------- AnyTree

/// Accepts anything; value = number of nodes visited (also counted in WORK).
pub struct AnyTree;

impl<'de> serde::Deserialize<'de> for AnyTree {
    fn deserialize<D: Deserializer<'de>>(d: D) -> Result<AnyTree, D::Error> {
        d.deserialize_any(AnyVisitor)?;
        Ok(AnyTree)
    }
}

struct AnySeed;
impl<'de> DeserializeSeed<'de> for AnySeed {
    type Value = ();
    fn deserialize<D: Deserializer<'de>>(self, d: D) -> Result<(), D::Error> {
        d.deserialize_any(AnyVisitor)
    }
}

struct AnyVisitor;
macro_rules! any_scalar {
    ($($m:ident : $t:ty),*) => {
        $(fn $m<E: de::Error>(self, _v: $t) -> Result<(), E> { tick::<E>() })*
    };
}
impl<'de> Visitor<'de> for AnyVisitor {
    type Value = ();
    fn expecting(&self, f: &mut fmt::Formatter) -> fmt::Result {
        f.write_str("anything")
    }
    any_scalar!(visit_bool: bool, visit_i8: i8, visit_i16: i16, visit_i32: i32, visit_i64: i64, visit_i128: i128,
        visit_u8: u8, visit_u16: u16, visit_u32: u32, visit_u64: u64, visit_u128: u128, visit_f32: f32, visit_f64: f64,
        visit_char: char, visit_str: &str, visit_string: String, visit_bytes: &[u8], visit_byte_buf: Vec<u8>);
    fn visit_unit<E: de::Error>(self) -> Result<(), E> {
        tick::<E>()
    }
    fn visit_none<E: de::Error>(self) -> Result<(), E> {
        tick::<E>()
    }
    fn visit_some<D: Deserializer<'de>>(self, d: D) -> Result<(), D::Error> {
        tick::<D::Error>()?;
        d.deserialize_any(AnyVisitor)
    }
    fn visit_newtype_struct<D: Deserializer<'de>>(self, d: D) -> Result<(), D::Error> {
        tick::<D::Error>()?;
        d.deserialize_any(AnyVisitor)
    }
    fn visit_seq<A: SeqAccess<'de>>(self, mut a: A) -> Result<(), A::Error> {
        tick::<A::Error>()?;
        while a.next_element_seed(AnySeed)?.is_some() {}
        Ok(())
    }
    fn visit_map<A: MapAccess<'de>>(self, mut a: A) -> Result<(), A::Error> {
        tick::<A::Error>()?;
        while a.next_key_seed(AnySeed)?.is_some() {
            a.next_value_seed(AnySeed)?;
        }
        Ok(())
    }
    fn visit_enum<A: EnumAccess<'de>>(self, a: A) -> Result<(), A::Error> {
        tick::<A::Error>()?;
        let (_, variant) = a.variant_seed(AnySeed)?;
        // plain enums only offer unit variants
        variant.unit_variant()
    }
}

// ---------------------------------------------------------------- DynOut

thread_local! {
    static DYN_CTX: Cell<(*const SNode, *const Env, bool)> = const { Cell::new((std::ptr::null(), std::ptr::null(), false)) };
}

/// `Deserialize` front for `DynDe`: APIs such as `read_deser::<T>` want a type,
/// not a seed; the schema context is passed through a thread-local for the
/// duration of `with_ctx`.
pub struct DynOut(pub V);

pub fn with_ctx<T>(node: &SNode, env: &Env, option_style: bool, f: impl FnOnce() -> T) -> T {
    struct Reset;
    impl Drop for Reset {
        fn drop(&mut self) {
            DYN_CTX.with(|c| c.set((std::ptr::null(), std::ptr::null(), false)));
        }
    }
    DYN_CTX.with(|c| c.set((node as *const SNode, env as *const Env, option_style)));
    let _r = Reset;
    f()
}

impl<'de> serde::Deserialize<'de> for DynOut {
    fn deserialize<D: Deserializer<'de>>(d: D) -> Result<DynOut, D::Error> {
        let (n, e, o) = DYN_CTX.with(|c| c.get());
        if n.is_null() {
            return Err(de::Error::custom("HARNESS: DynOut without context"));
        }
        // SAFETY: pointers are valid for the dynamic extent of `with_ctx`, which encloses this call
        let (node, env) = unsafe { (&*n, &*e) };
        let seed = DynDe { node, env, option_style: o, lenient: false };
        Ok(DynOut(seed.deserialize(d)?))
    }
}

/// Like `DynOut` but with `lenient` acceptance (see `DynDe::lenient`).
pub struct DynOutLenient(pub V);

impl<'de> serde::Deserialize<'de> for DynOutLenient {
    fn deserialize<D: Deserializer<'de>>(d: D) -> Result<DynOutLenient, D::Error> {
        let (n, e, o) = DYN_CTX.with(|c| c.get());
        if n.is_null() {
            return Err(de::Error::custom("HARNESS: DynOutLenient without context"));
        }
        // SAFETY: see DynOut
        let (node, env) = unsafe { (&*n, &*e) };
        let seed = DynDe { node, env, option_style: o, lenient: true };
        Ok(DynOutLenient(seed.deserialize(d)?))
    }
}
