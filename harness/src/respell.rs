//! "Irrelevant edits": re-spell a schema without changing what it denotes.

use crate::choices::Choices;
use crate::json::Js;
use crate::spec::*;

/// Remove docs, aliases, defaults, custom attributes, order.
pub fn strip_decorations(n: &SNode) -> SNode {
    let mut n = n.clone();
    fn walk(n: &mut SNode) {
        n.attrs.clear();
        match &mut n.ty {
            SType::Array(i) | SType::Map(i) => walk(i),
            SType::Union(bs) => bs.iter_mut().for_each(walk),
            SType::Record(named, fields) => {
                named.doc = None;
                named.aliases.clear();
                for f in fields {
                    f.doc = None;
                    f.aliases.clear();
                    f.default = None;
                    f.order = None;
                    f.attrs.clear();
                    walk(&mut f.node);
                }
            }
            SType::Enum(named, _, default) => {
                named.doc = None;
                named.aliases.clear();
                *default = None;
            }
            SType::Fixed(named, _) => {
                named.doc = None;
                named.aliases.clear();
            }
            _ => {}
        }
    }
    walk(&mut n);
    n
}

/// Change namespace spelling, primitive wrapping and reference spelling at random.
/// Returns the number of edits applied.
pub fn respell(n: &SNode, c: &mut Choices) -> (SNode, usize) {
    let mut n = n.clone();
    let mut edits = 0;
    fn walk(n: &mut SNode, enclosing: &str, c: &mut Choices, edits: &mut usize) {
        let is_prim = matches!(n.ty, SType::Null | SType::Boolean | SType::Int | SType::Long | SType::Float | SType::Double | SType::Bytes | SType::String);
        if is_prim && n.logical.is_none() && c.chance(1, 3) {
            n.wrap = !n.wrap;
            *edits += 1;
        }
        if let SType::Ref(_) = n.ty {
            if c.chance(1, 3) {
                n.ref_full = !n.ref_full;
                *edits += 1;
            }
        }
        let restyle = |named: &mut Named, c: &mut Choices, edits: &mut usize| {
            if c.chance(1, 2) {
                let options: &[NsStyle] = if named.ns == enclosing {
                    &[NsStyle::Inherit, NsStyle::Attr, NsStyle::Dotted]
                } else if named.ns.is_empty() {
                    &[NsStyle::Attr]
                } else {
                    &[NsStyle::Attr, NsStyle::Dotted, NsStyle::DottedWithAttr]
                };
                let new = options[c.pick(options.len())];
                if new != named.style {
                    named.style = new;
                    *edits += 1;
                }
            }
        };
        match &mut n.ty {
            SType::Array(i) | SType::Map(i) => walk(i, enclosing, c, edits),
            SType::Union(bs) => bs.iter_mut().for_each(|b| walk(b, enclosing, c, edits)),
            SType::Record(named, fields) => {
                restyle(named, c, edits);
                let ns = named.ns.clone();
                for f in fields {
                    walk(&mut f.node, &ns, c, edits);
                }
            }
            SType::Enum(named, ..) | SType::Fixed(named, _) => restyle(named, c, edits),
            _ => {}
        }
    }
    walk(&mut n, "", c, &mut edits);
    (n, edits)
}

/// Shuffle the key order of every JSON object.
pub fn shuffle_keys(js: &Js, c: &mut Choices) -> Js {
    match js {
        Js::Arr(a) => Js::Arr(a.iter().map(|x| shuffle_keys(x, c)).collect()),
        Js::Obj(o) => {
            let mut items: Vec<(String, Js)> = o.iter().map(|(k, v)| (k.clone(), shuffle_keys(v, c))).collect();
            for i in (1..items.len()).rev() {
                let j = c.pick(i + 1);
                items.swap(i, j);
            }
            Js::Obj(items)
        }
        other => other.clone(),
    }
}

pub fn render_with_whitespace(js: &Js, c: &mut Choices) -> String {
    const WS: &[&str] = &["", " ", "\n", "\t", "  \r\n"];
    // pre-draw a pattern; the renderer cycles through it
    let pattern: Vec<&'static str> = (0..7).map(|_| WS[c.pick(WS.len())]).collect();
    let mut i = 0;
    let mut f = move || {
        i += 1;
        pattern[i % pattern.len()]
    };
    js.render_ws(&mut f)
}
