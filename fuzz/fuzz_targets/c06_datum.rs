#![no_main]
// libFuzzer target with the semantic oracle inside (see harness/src/fuzzglue.rs)
use libfuzzer_sys::fuzz_target;

#[global_allocator]
static GLOBAL: vcore::alloc::Counting = vcore::alloc::Counting;

fuzz_target!(|data: &[u8]| {
    let mut log = vcore::runner::CaseLog::default();
    if let Some(msg) = vcore::fuzzglue::verdict(vcore::fuzzglue::datum_c06(data, &mut log)) {
        eprintln!("{msg}");
        std::process::abort();
    }
});
